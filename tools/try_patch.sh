#!/bin/sh
# usage: tools/try_patch.sh <patch.diff> [check args...]   — applies a seeded change to the
# repository (/repo, or $VERIF_REPO), runs the check, and always undoes the change afterwards.
set -u
R="${VERIF_REPO:-/repo}"
V="$(cd "$(dirname "$0")/.." && pwd)"
P="$1"; shift
git -C "$R" apply "$P" || { echo "patch does not apply"; exit 3; }
cd "$V" && ./check C16 "$@"
rc=$?
git -C "$R" apply -R "$P"
git -C "$R" status --short | grep -v '^??' | head -3
exit $rc
