#!/bin/sh
# usage: tools/try_patch.sh <patch.diff> [check args...]   — applies a seeded change to /repo,
# runs the check, and always undoes the change afterwards.
set -u
P="$1"; shift
git -C /repo apply "$P" || { echo "patch does not apply"; exit 3; }
cd /verif && ./check C16 "$@"
rc=$?
git -C /repo apply -R "$P"
git -C /repo status --short | grep -v '^??' | head -3
exit $rc
