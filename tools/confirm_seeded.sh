#!/bin/sh
# usage: tools/confirm_seeded.sh <worktree> <patch.diff> <demo command...>
# Confirms a seeded change in a scratch worktree: (1) builds and passes the 346 tests with the
# change, (2) the demo fails with it, (3) the demo passes without it. Leaves the change applied.
WT="$1"; P="$2"; shift 2
cd "$WT" || exit 9
git -C "$WT" diff --quiet && git -C "$WT" apply "$P"
echo "--- build with change"; (cd "$WT" && cargo build --workspace --offline 2>&1 | grep -E "^(warning|error)" | sort | uniq -c | head -5)
echo "--- tests with change"; (cd "$WT" && cargo nextest run --workspace --no-fail-fast --offline 2>&1 | grep -E "Summary|FAIL" | head -5)
echo "--- demo with change"; "$@" > /tmp/confirm.$$.with 2>&1; echo "demo rc(with)=$?"; tail -3 /tmp/confirm.$$.with
git -C "$WT" apply -R "$P" || exit 8
echo "--- demo without change"; "$@" > /tmp/confirm.$$.without 2>&1; echo "demo rc(without)=$?"; tail -3 /tmp/confirm.$$.without
git -C "$WT" apply "$P"
rm -f /tmp/confirm.$$.with /tmp/confirm.$$.without
