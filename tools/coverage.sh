#!/bin/sh
# One-off reach measurement (not part of the check): line/region coverage of derive-ex/src by the
# 16 sweep sessions plus the first 8 ordinary sessions, using -C instrument-coverage (nightly).
# Scratch build goes to /tmp/cov and is removed afterwards.
set -eu
T=$(dirname "$(rustc +nightly --print target-libdir)")/bin
rm -rf /tmp/cov && mkdir -p /tmp/cov
(cd /verif/sim && RUSTFLAGS="--cfg frozenlib_derive_ex_verif -C instrument-coverage" \
    cargo +nightly build --release --offline --target-dir /tmp/cov/target >/dev/null 2>&1)
BIN=/tmp/cov/target/release/dexsim
cd /tmp/cov
for i in 0 1 2 3 4 5 6 7; do LLVM_PROFILE_FILE=/tmp/cov/s$i.profraw $BIN session --idx $i --out /tmp/cov/s$i.json; done
for k in $(seq 0 15); do
    LLVM_PROFILE_FILE=/tmp/cov/w$k.profraw $BIN session --idx $((1099511627776 + k)) --sweep-n 16 --out /tmp/cov/w$k.json
done
"$T"/llvm-profdata merge -sparse /tmp/cov/*.profraw -o /tmp/cov/all.profdata
"$T"/llvm-cov report $BIN -instr-profile=/tmp/cov/all.profdata \
    --ignore-filename-regex='(registry|rustc|verif/sim/src|verif_hooks|rustlib)' 2>/dev/null
echo "--- lines never executed:"
"$T"/llvm-cov show $BIN -instr-profile=/tmp/cov/all.profdata \
    --ignore-filename-regex='(registry|rustc|verif/sim/src|verif_hooks|rustlib)' 2>/dev/null \
    | grep -E "^\s+[0-9]+\|\s+0\|" || true
rm -rf /tmp/cov
