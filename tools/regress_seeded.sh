#!/bin/sh
# Runs the quick tier against every seeded change (and the hand-written ones) and prints one
# line each. Breaking changes must report >= 1 violation class; the T* twins must report 0.
V="$(cd "$(dirname "$0")/.." && pwd)"
cd "$V"
# REGRESS_ONLY=<regex> restricts the run to matching names (e.g. the changes that were missed at first)
for f in seeded/S*/patch.diff seeded/own/M*.diff seeded/own/T*.diff seeded/twins/*/patch.diff seeded/duplicates/*.diff; do
    n=$(echo "$f" | sed 's#seeded/##; s#/patch.diff##; s#own/##; s#.diff##')
    if [ -n "${REGRESS_ONLY:-}" ] && ! echo "$n" | grep -Eq "$REGRESS_ONLY"; then continue; fi
    r=$(tools/try_patch.sh "$V/$f" --tier quick 2>&1 | grep -E "check: C16|harness error|patch does not apply" | sed 's/.*distinct inputs, //')
    echo "$n: $r"
done
