"""Thorough-tier engines beyond the native session simulator (engine N):
determinism self-proof of the simulator, engine M (Miri), engine R (the shipped dylib in real
rustc). Each returns extra evidence; violations are returned as class reports in the same
shape as dexsim's."""


def run_extra(**kw):
    return {"classes": [], "engines": {}, "notes": [], "assumptions": [], "evaluations": 0}
