"""Engines beyond the native session simulator (engine N):

* determinism self-proof of the simulator (decision logs and event logs of repeated runs at
  several worker counts must be identical) — also the D3 oracle (replay stability);
* engine R: the shipped proc-macro dylib (guard OFF) inside real rustc processes —
  R-T greps for panics / message-less compile_error! on generated inputs, R-D expands the same
  crate in several compiler processes and compares the bytes;
* engine M: the scripted session under Miri with many seeds (OS randomness, addresses and
  preemption are Miri's, hence seeded).

Violations are returned as class reports shaped like dexsim's. Harness problems raise
HarnessError (exit 2), never a violation.
"""
import concurrent.futures
import hashlib
import json
import os
import re
import shutil
import subprocess
import time


class HarnessError(Exception):
    pass


def _env():
    env = dict(os.environ)
    env["CARGO_NET_OFFLINE"] = "true"
    env.pop("RUSTFLAGS", None)
    env.pop("RUSTC_WRAPPER", None)
    return env


# --------------------------------------------------------------------------- self-proof / D3

def self_proof(kw, sessions, job_counts):
    """Runs the same `sessions` sessions once per entry of job_counts (plus one repeat of the
    first) with full step logs and compares. Decision logs (plans) differing = harness error;
    event logs differing with equal plans = the expander answered differently in two identical
    executions = violation (D3)."""
    exe, seed, out, run_native = kw["exe"], kw["seed"], kw["out"], kw["run_native_raw"]
    runs = []
    t0 = time.time()
    for k, jobs in enumerate(list(job_counts) + [job_counts[0]]):
        d = os.path.join(out, f"selfproof-{k}")
        n = run_native(exe, seed, jobs, d, sessions=sessions, step_log=True, sweep=0)
        log = open(os.path.join(d, "step_log.txt")).read() if os.path.exists(os.path.join(d, "step_log.txt")) else ""
        runs.append((jobs, n, log, d))
    base = runs[0]
    classes = []
    for jobs, n, log, d in runs[1:]:
        if n["plan_digests"] != base[1]["plan_digests"]:
            raise HarnessError(f"simulator decision logs differ between two runs of the same seed "
                               f"(jobs={base[0]} vs jobs={jobs}): the simulator itself is not deterministic")
        if log != base[2]:
            # find the first differing session / step
            a, b = base[2].splitlines(), log.splitlines()
            where = next((i for i, (x, y) in enumerate(zip(a, b)) if x != y), min(len(a), len(b)))
            sess = "?"
            for line in a[:where + 1][::-1]:
                if line.startswith("S"):
                    sess = line[1:]
                    break
            classes.append({
                "class": "diverge-on-replay",
                "kind": "diverge",
                "occurrences": 1,
                "replay": _write_d3_replay(kw, sess, a[where] if where < len(a) else "", b[where] if where < len(b) else ""),
                "reproducible": False,
                "input": f"session {sess} of seed {seed}",
                "detail": f"two executions of the identical schedule (same seed, same plan digest) logged different "
                          f"outputs: `{a[where] if where < len(a) else ''}` vs `{b[where] if where < len(b) else ''}`",
            })
            break
    for _, _, _, d in runs:
        shutil.rmtree(d, ignore_errors=True)
    info = {
        "sessions": sessions,
        "runs": len(runs),
        "job_counts": list(job_counts) + [job_counts[0]],
        "requests_per_run": base[1]["requests"],
        "identical_decision_logs": True,
        "identical_event_logs": not classes,
        "wall_s": round(time.time() - t0, 1),
    }
    return info, classes, base[1]["requests"] * len(runs)


def _write_d3_replay(kw, sess, a, b):
    p = os.path.join(kw["replays"], f"C16-diverge-replay-{kw['seed']}-{sess}.json")
    json.dump({
        "property": "C16", "class": "diverge-on-replay", "kind": "diverge", "engine": "N",
        "root_seed": kw["seed"], "session_idx": sess, "reproducible": False,
        "detail": "identical schedule, different output in two executions",
        "observed_a": a, "observed_b": b,
        "how_to_replay": f"VERIF_SEED={kw['seed']} ./check C16 --tier thorough (self-proof stage) or "
                         f"sim/target/release/dexsim session --root {kw['seed']} --idx {sess} --step-log twice and diff",
        "plan": {"reqs": [], "steps": []},
        "input": f"session {sess}",
    }, open(p, "w"), indent=1)
    return p


# --------------------------------------------------------------------------- engine R

def build_real_dylib(repo, target_dir, toolchain=None):
    """Builds the shipped proc-macro (guard off) from the working tree and returns the .so."""
    cmd = ["cargo"] + ([f"+{toolchain}"] if toolchain else []) + [
        "build", "--offline", "--manifest-path", os.path.join(repo, "Cargo.toml"), "-p", "derive-ex",
        "--target-dir", target_dir, "--message-format=json"]
    r = subprocess.run(cmd, env=_env(), capture_output=True, text=True)
    if r.returncode != 0:
        raise HarnessError(f"cannot build the proc-macro dylib ({toolchain or 'stable'}):\n{r.stderr[-3000:]}")
    so = None
    for line in r.stdout.splitlines():
        try:
            m = json.loads(line)
        except ValueError:
            continue
        if m.get("reason") == "compiler-artifact" and m.get("target", {}).get("name") in ("derive_ex", "derive-ex"):
            for f in m.get("filenames", []):
                if f.endswith(".so"):
                    so = f
    if not so:
        raise HarnessError("proc-macro dylib not found in cargo's output")
    return so


PANIC_RE = re.compile(r"^error: (custom attribute|proc-macro derive|proc macro) panicked", re.M)
NOMSG_RE = re.compile(r"^error: (`?compile_error!`? takes 1 argument|\s*$)", re.M)
# the one parser verdict of the real host that cannot be confused with a message of derive-ex's own
UNPARSABLE_RE = re.compile(r"^error: proc-macro derive produced unparsable tokens", re.M)
LOC_RE = re.compile(r"^\s*--> ([^:\n]+):(\d+):\d+", re.M)


def _module_at(src_lines, line_no):
    for i in range(min(line_no, len(src_lines)) - 1, -1, -1):
        m = re.match(r"^mod (m\d+) \{", src_lines[i])
        if m:
            return m.group(1)
    return None


RUSTC_TIMEOUT_S = 300


class _Partial(str):
    """stderr of a compilation that was cut off by the time limit."""


def _rustc_metadata(rustc, so, src, out_dir, timeout=RUSTC_TIMEOUT_S, partial=False):
    """stderr of the compilation, or None if rustc did not finish within the limit. With
    `partial`, a cut-off compilation whose diagnostics show that macro expansion had already
    finished (rustc reports coded name-resolution / type errors only after every macro has been
    expanded) returns what was printed so far: the rest of the time went into rustc's own
    analysis of the generated code, which is not under test - e.g. an `impl<T> Add for <unresolved>`
    next to a 64-field struct keeps the trait solver busy for minutes."""
    try:
        r = subprocess.run([rustc, "--edition", "2021", "--crate-type", "lib", "--emit=metadata",
                            "--out-dir", out_dir, "--extern", f"derive_ex={so}", src],
                           env={"PATH": "/usr/bin:/bin"}, capture_output=True, text=True, timeout=timeout)
    except subprocess.TimeoutExpired as e:
        err = e.stderr or ""
        if isinstance(err, bytes):
            err = err.decode("utf-8", "replace")
        if partial and re.search(r"^error\[E0\d+\]", err, re.M):
            return _Partial(err)
        return None
    return r.stderr


def _find_hanging_module(rustc, so, src, out_dir):
    """Bisects the modules of a generated crate whose compilation does not finish, down to one
    module that alone makes rustc hang. Returns its name or None."""
    text = open(src).read()
    head, *mods = re.split(r"(?m)^(?=mod m\d+ \{)", text)
    while len(mods) > 1:
        half = mods[:len(mods) // 2]
        f = src[:-3] + ".bisect.rs"
        open(f, "w").write(head + "".join(half))
        if _rustc_metadata(rustc, so, f, out_dir, timeout=60) is None:
            mods = half
        else:
            mods = mods[len(mods) // 2:]
    if not mods:
        return None
    f = src[:-3] + ".bisect.rs"
    open(f, "w").write(head + mods[0])
    if _rustc_metadata(rustc, so, f, out_dir, timeout=60) is not None:
        return None
    m = re.match(r"mod (m\d+) \{", mods[0])
    return m.group(1) if m else None


def _pool_files(kw):
    """The corpus and the directed seeds as the native run extracted / built them (same pool, and
    ~2 s less per emit-crate process)."""
    args = []
    for flag, name in (("--corpus", "corpus.json"), ("--directed", "directed.json")):
        p = os.path.join(kw.get("native_out", ""), name)
        if os.path.exists(p):
            args += [flag, p]
    return args


def _input_in_premise(rustc, d, req):
    """The property's premise for the real host: rustc's own parser accepts the item (syn is more
    liberal, e.g. `dyn* Tr`, `builtin # ..` in type position). Feature-gated syntax counts as
    parsed. None-delimited groups are dissolved for this question."""
    item = req["item"].replace("__ng (", "(").replace("__ng(", "(")
    src = os.path.join(d, "premise.%d.rs" % (abs(hash(item)) % 10**9))
    open(src, "w").write("#![allow(warnings)]\n#[cfg(any())]\nmod i {\n" + item + "\n}\n")
    try:
        r = subprocess.run([rustc, "--edition", "2021", "--crate-type", "lib", "--emit=metadata", "--out-dir", d, src],
                           env={"PATH": "/usr/bin:/bin"}, capture_output=True, text=True, timeout=60)
    except subprocess.TimeoutExpired:
        return True
    finally:
        pass
    errs = [l for l in r.stderr.splitlines() if l.startswith("error") and not l.startswith("error[E0658]")
            and "aborting due to" not in l]
    return not errs


def _chunks_for(kw, n_inputs, pool_stride):
    """rustc's cost per generated crate is strongly super-linear in the number of modules (207
    modules that take <= 1 s each took > 400 s together): keep every crate at about 60 modules."""
    nat = kw.get("native", {})
    modules = (nat.get("directed_items", 60000) // pool_stride) + nat.get("corpus_items", 500) + n_inputs
    return max(96, modules // 60 + 1)


def engine_r_t(kw, n_inputs, chunks, pool_stride=1):
    """Real host, T1/T3: generated + corpus + directed inputs through the shipped dylib."""
    exe, out, rustc, seed = kw["exe"], kw["out"], kw["rustc"], kw["seed"]
    d = os.path.join(out, "engine-r")
    shutil.rmtree(d, ignore_errors=True)
    os.makedirs(d)
    t0 = time.time()
    so = build_real_dylib(kw["repo"], os.path.join(out, "r-target-stable"))
    files = [os.path.join(d, f"t{c}.rs") for c in range(chunks)]

    def emit(c):
        cmd = [exe, "emit-crate", "--repo", kw["repo"], *_pool_files(kw), "--root", str(seed), "--from", "0",
               "--n", str(n_inputs), "--out", files[c], "--no-user-compile-error", "--with-pool",
               "--pool-stride", str(pool_stride), "--pool-offset", str(seed % pool_stride),
               "--no-native", "--shard", f"{c}/{chunks}", "--max-tokens", "350"]
        r = subprocess.run(cmd, env={"PATH": "/usr/bin:/bin"}, capture_output=True, text=True)
        if r.returncode != 0:
            raise HarnessError(f"emit-crate failed: {r.stderr[-2000:]}")

    with concurrent.futures.ThreadPoolExecutor(max_workers=kw["jobs"]) as ex:
        list(ex.map(emit, range(chunks)))
    classes = []
    modules = 0
    with concurrent.futures.ThreadPoolExecutor(max_workers=kw["jobs"]) as ex:
        errs = list(ex.map(lambda f: _rustc_metadata(rustc, so, f, d, timeout=60, partial=True), files))
    cut_off = sum(1 for e in errs if isinstance(e, _Partial))
    inconclusive = 0
    outside_premise = []
    for f, err in zip(files, errs):
        src_lines = open(f).read().splitlines()
        index = {e["module"]: e for e in json.load(open(f[:-3] + ".index.json"))}
        modules += len(index)
        if err is None:
            mod = _find_hanging_module(rustc, so, f, d)
            ent = index.get(mod)
            if not ent:
                # no single module makes rustc hang on its own: an expansion that does not terminate
                # would (each invocation is independent), so this is rustc's own time (or a starved
                # machine). No verdict from this crate; counted in the evidence.
                inconclusive += 1
                continue
            req = ent["req"]
            disp = (f"#[derive_ex({req['attr']})] {req['item']}" if req["mode"] == "attr"
                    else f"#[derive(Ex)] {req['item']}")
            p = os.path.join(kw["replays"], "C16-real-hang-" + hashlib.sha1(disp.encode()).hexdigest()[:12] + ".json")
            json.dump({"property": "C16", "class": "hang in the real host (rustc + shipped dylib)", "kind": "hang",
                       "engine": "R", "detail": "rustc does not finish expanding this module (60 s limit, alone)",
                       "root_seed": seed, "session_idx": 0, "original_step": 0, "original_steps_in_session": 1,
                       "minimisation_trials": 0, "reproducible": True, "input": disp,
                       "plan": {"reqs": [req], "steps": [{"req": 0, "thread": "main", "policy": {"kind": "keep"}}]}},
                      open(p, "w"), indent=1)
            classes.append({"class": "hang in the real host (rustc + shipped dylib)", "kind": "hang", "occurrences": 1,
                            "replay": p, "reproducible": True, "input": disp,
                            "detail": "rustc does not finish expanding this module"})
            continue
        for kind, rx in (("panic", PANIC_RE), ("nomsg", NOMSG_RE), ("illformed-rustc", UNPARSABLE_RE)):
            for m in rx.finditer(err):
                if kind == "illformed-rustc":
                    # rustc prints its parser's complaint as the diagnostic just before this one
                    prev = err.rfind("\nerror", 0, m.start())
                    why = err[prev + 1:m.start()].splitlines()[0] if prev >= 0 else (err[:m.start()].splitlines() or ["?"])[0]
                    loc = LOC_RE.search(err, m.end())
                    mod = _module_at(src_lines, int(loc.group(2))) if loc else None
                    ent = index.get(mod)
                    if not ent:
                        raise HarnessError(f"engine R: cannot attribute diagnostic to a module:\n{err[m.start():m.start() + 400]}")
                    req = ent["req"]
                    disp = f"#[derive(Ex)] {req['item']}"
                    if not _input_in_premise(rustc, d, req):
                        outside_premise.append(disp[:200])
                        continue
                    cls = "unparsable derive output in the real host (rustc + shipped dylib): " + re.sub(r"`[^`]*`", "`_`", why)
                    p = os.path.join(kw["replays"], "C16-real-unparsable-" + hashlib.sha1(disp.encode()).hexdigest()[:12] + ".json")
                    json.dump({"property": "C16", "class": cls, "kind": kind, "engine": "R", "detail": why, "root_seed": seed,
                               "session_idx": 0, "original_step": 0, "original_steps_in_session": 1,
                               "minimisation_trials": 0, "reproducible": True, "input": disp,
                               "plan": {"reqs": [req], "steps": [{"req": 0, "thread": "main", "policy": {"kind": "keep"}}]}},
                              open(p, "w"), indent=1)
                    classes.append({"class": cls, "kind": kind, "occurrences": 1, "replay": p, "reproducible": True,
                                    "input": disp, "detail": why + " | error: proc-macro derive produced unparsable tokens"})
                    continue
                loc = LOC_RE.search(err, m.end())
                mod = _module_at(src_lines, int(loc.group(2))) if loc else None
                ent = index.get(mod)
                tail = err[m.start():m.start() + 600]
                if not ent:
                    raise HarnessError(f"engine R: cannot attribute diagnostic to a module:\n{tail}")
                req = ent["req"]
                disp = (f"#[derive_ex({req['attr']})] {req['item']}" if req["mode"] == "attr"
                        else f"#[derive(Ex)] {req['item']}")
                p = os.path.join(kw["replays"], "C16-real-" + kind + "-" +
                                 hashlib.sha1(disp.encode()).hexdigest()[:12] + ".json")
                json.dump({"property": "C16", "class": f"{kind} in the real host (rustc + shipped dylib)",
                           "kind": kind, "engine": "R", "detail": tail, "root_seed": seed,
                           "session_idx": 0, "original_step": 0, "original_steps_in_session": 1,
                           "minimisation_trials": 0, "reproducible": True, "input": disp,
                           "plan": {"reqs": [req], "steps": [{"req": 0, "thread": "main", "policy": {"kind": "keep"}}]}},
                          open(p, "w"), indent=1)
                classes.append({"class": f"{kind} in the real host (rustc + shipped dylib)", "kind": kind,
                                "occurrences": 1, "replay": p, "reproducible": True, "input": disp,
                                "detail": tail.splitlines()[0] + " | " + " ".join(tail.splitlines()[1:6])})
    # one report per kind (smallest input)
    best = {}
    for c in classes:
        k = c["class"]
        if k not in best or len(c["input"]) < len(best[k]["input"]):
            n = best[k]["occurrences"] + 1 if k in best else 1
            best[k] = dict(c, occurrences=n)
        else:
            best[k]["occurrences"] += 1
    shutil.rmtree(d, ignore_errors=True)
    return {"modules_compiled": modules, "rustc_processes": len(files), "wall_s": round(time.time() - t0, 1),
            "crates_cut_off_after_expansion": cut_off, "crates_inconclusive": inconclusive,
            "unparsable_but_input_outside_premise": len(outside_premise), "examples_outside_premise": outside_premise[:3],
            "dylib": os.path.basename(so)}, list(best.values()), modules


def _source_for(kw, replay_path):
    """Source text handing the (last) request of a replay file to a real compiler: the plain
    attribute / derive form, or a macro_rules! wrapper for None-delimited groups (`dexsim emit-one`)."""
    exe = kw.get("exe") or os.path.join(os.path.dirname(os.path.dirname(os.path.abspath(__file__))),
                                        "sim", "target", "release", "dexsim")
    r = subprocess.run([exe, "emit-one", "--replay", replay_path], env={"PATH": "/usr/bin:/bin"},
                       capture_output=True, text=True)
    if r.returncode != 0 or not r.stdout.strip():
        return None
    return r.stdout


def confirm_in_real_host(kw, classes):
    """Engine N runs the expander on proc-macro2's fallback, outside a compiler. A panic (or a
    message-less compile_error!) it reports is only a verdict if the shipped macro does the same
    inside real rustc on the minimised input: otherwise it is an artefact of the stub (e.g. code
    that legitimately uses a proc_macro-only API). Returns (confirmed, unconfirmed)."""
    confirmed, unconfirmed = [], []
    todo = [c for c in classes if c.get("kind") in ("panic", "nomsg") and c.get("replay")]
    if not todo:
        return classes, []
    so = build_real_dylib(kw["repo"], os.path.join(kw["out"], "r-target-stable"))
    d = os.path.join(kw["out"], "engine-r-confirm")
    shutil.rmtree(d, ignore_errors=True)
    os.makedirs(d)
    for c in classes:
        if c not in todo:
            confirmed.append(c)
            continue
        body = _source_for(kw, c["replay"])
        if body is None:
            confirmed.append(c)
            continue
        src = os.path.join(d, "c.rs")
        open(src, "w").write("#![allow(warnings)]\nmod m0 {\nuse ::derive_ex::{derive_ex, Ex};\n" + body + "\n}\n")
        err = _rustc_metadata(kw["rustc"], so, src, d, timeout=120)
        rx = PANIC_RE if c["kind"] == "panic" else NOMSG_RE
        if err is None or rx.search(err):
            confirmed.append(dict(c, confirmed_in_real_host=True))
        else:
            unconfirmed.append(dict(c, detail=c.get("detail", "") + " (engine N only: the shipped macro inside real rustc "
                                    "does not do this on the same input; stub artefact or input rustc never hands to the macro)"))
            try:
                os.remove(c["replay"])
            except OSError:
                pass
    shutil.rmtree(d, ignore_errors=True)
    return confirmed, unconfirmed


def replay_real(kw, path):
    """Replays an engine-R replay file: one module, the shipped dylib, real rustc."""
    rf = json.load(open(path))
    d = os.path.join(kw["out"], "engine-r-replay")
    shutil.rmtree(d, ignore_errors=True)
    os.makedirs(d)
    so = build_real_dylib(kw["repo"], os.path.join(kw["out"], "r-target-stable"))
    body = _source_for(kw, path)
    if body is None:
        raise HarnessError(f"{path}: the request cannot be expressed in source text")
    src = os.path.join(d, "r.rs")
    open(src, "w").write("#![allow(warnings)]\nmod m0 {\nuse ::derive_ex::{derive_ex, Ex};\n" + body + "\n}\n")
    err = _rustc_metadata(kw["rustc"], so, src, d, timeout=60)
    if rf["kind"] == "hang":
        hit = err is None
        print("rustc did not finish within 60 s" if hit else "rustc finished")
    else:
        rx = {"panic": PANIC_RE, "illformed-rustc": UNPARSABLE_RE}.get(rf["kind"], NOMSG_RE)
        hit = rx.search(err or "")
        print((err or "")[:3000])
    shutil.rmtree(d, ignore_errors=True)
    return bool(hit)


def engine_r_d(kw, n_inputs, processes, shards=16):
    """Real host, D: every shard of the generated crate is expanded by `processes` separate
    nightly rustc processes (different OS hash keys, ASLR, pid, clock); the expanded text must
    be byte-identical. Shards keep rustc's diagnostics for the unresolved names cheap."""
    exe, out, seed = kw["exe"], kw["out"], kw["seed"]
    d = os.path.join(out, "engine-rd")
    shutil.rmtree(d, ignore_errors=True)
    os.makedirs(d)
    t0 = time.time()
    try:
        so = build_real_dylib(kw["repo"], os.path.join(out, "r-target-nightly"), "nightly")
    except HarnessError as e:
        return {"skipped": f"nightly dylib not buildable: {str(e)[:200]}"}, [], 0
    files = [os.path.join(d, f"d{c}.rs") for c in range(shards)]

    def emit(c):
        r = subprocess.run([exe, "emit-crate", "--repo", kw["repo"], *_pool_files(kw), "--root", str(seed), "--n", str(n_inputs),
                            "--with-pool", "--ok-only", "--shard", f"{c}/{shards}", "--out", files[c]],
                           env={"PATH": "/usr/bin:/bin"}, capture_output=True, text=True)
        if r.returncode != 0:
            raise HarnessError(f"emit-crate failed: {r.stderr[-2000:]}")

    def expand(job):
        c, _ = job
        try:
            r = subprocess.run(["rustc", "+nightly", "--edition", "2021", "--crate-type", "lib",
                                "-Zunpretty=expanded", "--extern", f"derive_ex={so}", files[c]],
                               env=_env(), capture_output=True, text=True, timeout=RUSTC_TIMEOUT_S)
        except subprocess.TimeoutExpired:
            return c, None, "timed out"
        return c, r.stdout, r.stderr

    with concurrent.futures.ThreadPoolExecutor(max_workers=kw["jobs"]) as ex:
        list(ex.map(emit, range(shards)))
        results = list(ex.map(expand, [(c, k) for c in range(shards) for k in range(processes)]))
    classes = []
    modules = 0
    skipped = 0
    agree = compared = 0
    for c in range(shards):
        index = json.load(open(files[c][:-3] + ".index.json"))
        outs = [(o, e) for (cc, o, e) in results if cc == c]
        base = outs[0][0]
        if base is None or any(o is None for o, _ in outs) or "please recompile that crate" in outs[0][1] \
                or base.count("#[automatically_derived]") < len(index):
            # the dylib did not load, rustc gave up or timed out: this shard proves nothing
            skipped += 1
            continue
        modules += len(index)
        for k, (o, _) in enumerate(outs[1:], 1):
            if o != base and not classes:
                a, b = base.splitlines(), o.splitlines()
                where = next((i for i, (x, y) in enumerate(zip(a, b)) if x != y), min(len(a), len(b)))
                mod = _module_at(a, where + 1)
                ent = next((e for e in index if e["module"] == mod), None)
                req = ent["req"] if ent else {"mode": "attr", "attr": "", "item": ""}
                disp = (f"#[derive_ex({req['attr']})] {req['item']}" if req["mode"] == "attr"
                        else f"#[derive(Ex)] {req['item']}")
                p = os.path.join(kw["replays"], f"C16-real-diverge-{hashlib.sha1(disp.encode()).hexdigest()[:12]}.json")
                json.dump({"property": "C16", "class": "diverge-across-processes", "kind": "diverge", "engine": "R",
                           "detail": f"two rustc processes expanded module {mod} differently",
                           "root_seed": seed, "session_idx": 0, "original_step": 0, "original_steps_in_session": 1,
                           "minimisation_trials": 0, "reproducible": False, "input": disp,
                           "output_a": "\n".join(a[max(0, where - 3):where + 4]),
                           "output_b": "\n".join(b[max(0, where - 3):where + 4]),
                           "plan": {"reqs": [req], "steps": [{"req": 0, "thread": "main", "policy": {"kind": "os"}}]}},
                          open(p, "w"), indent=1)
                classes.append({"class": "diverge-across-processes (real host)", "kind": "diverge", "occurrences": 1,
                                "replay": p, "reproducible": False, "input": disp,
                                "detail": f"process 0 line {where + 1}: `{a[where] if where < len(a) else ''}` vs process {k}: "
                                          f"`{b[where] if where < len(b) else ''}`"})
        # cross-check N against R: the real bridge and the fallback must agree on the tokens
        a_, c_ = _cross_check(kw, base, files[c][:-3] + ".index.json", c)
        agree += a_
        compared += c_
    shutil.rmtree(d, ignore_errors=True)
    if modules == 0:
        return {"skipped": "the nightly compiler did not expand any shard (dylib not loaded or errors stopped "
                           "expansion); pass not counted"}, [], 0
    return {"modules_expanded": modules, "shards": shards, "shards_not_counted": skipped,
            "rustc_processes": shards * processes, "byte_identical": not classes,
            "native_vs_real_host_agreement": {"modules_compared": compared, "token_identical": agree},
            "wall_s": round(time.time() - t0, 1)}, classes, modules * processes


def _cross_check(kw, expanded, index_path, c):
    """Feeds the real host's expansion of every module back to dexsim, which re-lexes it and
    compares it (spacing-insensitively) with engine N's own output for the same request.
    Informational: pretty-printing is not guaranteed to be token-preserving."""
    d = os.path.join(kw["out"], "engine-rd")
    p = os.path.join(d, f"expanded{c}.rs")
    open(p, "w").write(expanded)
    r = subprocess.run([kw["exe"], "cross-check", "--expanded", p, "--index", index_path],
                       env={"PATH": "/usr/bin:/bin"}, capture_output=True, text=True)
    m = re.search(r"cross-check: (\d+) of (\d+)", r.stdout)
    if not m:
        return 0, 0
    return int(m.group(1)), int(m.group(2))


# --------------------------------------------------------------------------- engine P

ERR_LOC_RE = re.compile(r"^error[^\n]*\n\s*--> [^:\n]+:(\d+):\d+", re.M)


def engine_p(kw, dump_dir, per_file=800):
    """rustc's own parser over the (input, output) pairs that sessions dumped: each input and each
    output sits in a `#[cfg(any())] mod` of its own, which rustc parses completely and then
    discards. An output rustc rejects although syn accepted it, for an input rustc accepts, is a
    well-formedness violation that engine N's syn oracle cannot see."""
    rustc, out = kw["rustc"], kw["out"]
    d = os.path.join(out, "engine-p")
    shutil.rmtree(d, ignore_errors=True)
    os.makedirs(d)
    t0 = time.time()
    seen = {}
    for name in sorted(os.listdir(dump_dir)):
        for line in open(os.path.join(dump_dir, name)):
            try:
                e = json.loads(line)
            except ValueError:
                continue
            seen.setdefault(e["id"], e)
    entries = [seen[k] for k in sorted(seen)]
    if not entries:
        return {"skipped": "no dumped outputs"}, [], 0
    parse_entries = [e for e in entries if not e.get("attrs_only")]
    chunks = [parse_entries[i:i + per_file] for i in range(0, len(parse_entries), per_file)]

    def body(e):
        inp = (f"#[derive_ex({e['attr']})]\n{e['item']}" if e["mode"] == "attr" else f"#[derive(Ex)]\n{e['item']}")
        return inp, e["out"]

    gated_total = []

    def check_chunk(ci):
        """Returns (bad_inputs, bad_outputs) as lists of (entry, first error line)."""
        live = list(range(len(chunks[ci])))
        bad_in, bad_out = [], []
        for _round in range(60):
            lines = ["#![allow(warnings)]"]
            owner = {}
            for k in live:
                inp, outp = body(chunks[ci][k])
                for tag, text in (("i", inp), ("o", outp)):
                    lines.append("#[cfg(any())]")
                    lines.append(f"mod {tag}{k} {{")
                    start = len(lines) + 1
                    lines.extend(text.split("\n"))
                    for ln in range(start, len(lines) + 1):
                        owner[ln] = (tag, k)
                    lines.append("}")
            f = os.path.join(d, f"p{ci}.rs")
            open(f, "w").write("\n".join(lines) + "\n")
            try:
                r = subprocess.run([rustc, "--edition", "2021", "--crate-type", "lib", "--emit=metadata",
                                    "--out-dir", d, f], env={"PATH": "/usr/bin:/bin"}, capture_output=True,
                                   text=True, timeout=RUSTC_TIMEOUT_S)
            except subprocess.TimeoutExpired:
                raise HarnessError(f"engine P: rustc did not finish parsing {f}")
            if r.returncode == 0:
                return bad_in, bad_out
            hits = {}
            gated = set()
            for m in ERR_LOC_RE.finditer(r.stderr):
                # E0658: the syntax parsed, it is only feature-gated (`yield`, `become`, `builtin #`,
                # closure binders ... written by the user inside a helper value) - not ill-formed
                if r.stderr.startswith("error[E0658]", m.start()):
                    g = owner.get(int(m.group(1)))
                    if g:
                        gated.add(g)
                    continue
                o = owner.get(int(m.group(1)))
                if o and o not in hits:
                    hits[o] = r.stderr[m.start():m.start() + 300].splitlines()[0]
            gated_total.extend(gated)
            if not hits and gated:
                # only feature gates left: drop those entries and parse the rest once more
                live = [k for k in live if ("i", k) not in gated and ("o", k) not in gated]
                continue
            if not hits:
                raise HarnessError(f"engine P: rustc failed on {f} without an attributable error:\n{r.stderr[:1500]}")
            drop = set(k for (_, k) in gated)
            for (tag, k), msg in hits.items():
                (bad_in if tag == "i" else bad_out).append((chunks[ci][k], msg))
                drop.add(k)
            live = [k for k in live if k not in drop]
        raise HarnessError("engine P: too many rounds")

    with concurrent.futures.ThreadPoolExecutor(max_workers=kw["jobs"]) as ex:
        results = list(ex.map(check_chunk, range(len(chunks))))
    bad_in = [x for r in results for x in r[0]]
    bad_in_ids = {e["id"] for e, _ in bad_in}
    bad_out = [x for r in results for x in r[1] if x[0]["id"] not in bad_in_ids]
    # known findings are matched per occurrence (so that they cannot mask another cause that
    # happens to share rustc's message); the rest is grouped by message, one report per group
    classes = []
    groups = {}
    for e, msg in bad_out:
        disp = (f"#[derive_ex({e['attr']})] {e['item']}" if e["mode"] == "attr" else f"#[derive(Ex)] {e['item']}")
        kf = next((f for f in kw.get("known", []) if f.get("kind") == "illformed-rustc"
                   and re.search(f.get("class_regex", "$^"), msg) and re.search(f.get("input_regex", "$^"), disp)), None)
        key = ("known:" + kf["id"]) if kf else re.sub(r"`[^`]*`", "`_`", msg)
        groups.setdefault(key, []).append((e, msg, disp))
    for key, items in sorted(groups.items()):
        items.sort(key=lambda x: len(x[2]))
        e, msg, disp = items[0]
        req = {"mode": e["mode"], "attr": e.get("orig_attr", e["attr"]), "item": e.get("orig_item", e["item"])}
        p = os.path.join(kw["replays"], "C16-rustc-illformed-" + hashlib.sha1(disp.encode()).hexdigest()[:12] + ".json")
        cls = f"illformed for rustc (syn accepts the output, rustc's parser does not): {key}"
        json.dump({"property": "C16", "class": cls,
                   "kind": "illformed-rustc", "engine": "P", "detail": msg, "root_seed": kw["seed"], "session_idx": 0,
                   "original_step": 0, "original_steps_in_session": 1, "minimisation_trials": 0, "reproducible": True,
                   "input": disp, "output_a": e["out"],
                   "plan": {"reqs": [req], "steps": [{"req": 0, "thread": "main", "policy": {"kind": "keep"}}]}},
                  open(p, "w"), indent=1)
        classes.append({"class": cls, "kind": "illformed-rustc", "occurrences": len(items), "replay": p,
                        "reproducible": True, "input": disp, "detail": msg,
                        "known": key[6:] if key.startswith("known:") else None})
    # built-in attributes the expander itself wrote or rewrote: rustc validates their arguments
    # beyond what its item parser checks (and only in live code), so each distinct one is put on a
    # trivial live item of its own; a code-less error there is the attribute's own fault
    probe = {}
    for e in entries:
        if e["id"] in bad_in_ids:
            continue
        for a in e.get("new_attrs", []) or []:
            if a not in probe or len(e["item"]) < len(probe[a]["item"]):
                probe[a] = e
    attrs = sorted(probe)
    bad_attrs = []
    if attrs:
        lines = ["#![allow(warnings)]"]
        owner = {}
        for k, a in enumerate(attrs):
            lines.append(f"mod a{k} {{")
            owner[len(lines) + 1] = a
            lines.append(a.replace("\n", " "))
            lines.append("pub struct P; }")
        f = os.path.join(d, "attrs.rs")
        open(f, "w").write("\n".join(lines) + "\n")
        try:
            r = subprocess.run([rustc, "--edition", "2021", "--crate-type", "lib", "--emit=metadata", "--out-dir", d, f],
                               env={"PATH": "/usr/bin:/bin"}, capture_output=True, text=True, timeout=RUSTC_TIMEOUT_S)
        except subprocess.TimeoutExpired:
            raise HarnessError(f"engine P: rustc did not finish {f}")
        for m in re.finditer(r"^error: ([^\n]*)\n\s*--> [^:\n]+:(\d+):\d+", r.stderr, re.M):
            msg, ln = m.group(1), int(m.group(2))
            if re.search(r"cannot find|aborting due to|unresolved|can only be applied|should be applied|not allowed|unused", msg):
                continue
            a = owner.get(ln)
            if a:
                bad_attrs.append((a, msg))
    for a, msg in bad_attrs:
        e = probe[a]
        disp = (f"#[derive_ex({e['attr']})] {e['item']}" if e["mode"] == "attr" else f"#[derive(Ex)] {e['item']}")
        req = {"mode": e["mode"], "attr": e.get("orig_attr", e["attr"]), "item": e.get("orig_item", e["item"])}
        pth = os.path.join(kw["replays"], "C16-rustc-attribute-" + hashlib.sha1((a + disp).encode()).hexdigest()[:12] + ".json")
        cls = "illformed for rustc (a built-in attribute written or rewritten by the expander is rejected): " + re.sub(r"`[^`]*`", "`_`", msg)
        json.dump({"property": "C16", "class": cls, "kind": "illformed-rustc", "engine": "P", "detail": f"{msg} | attribute: {a}",
                   "root_seed": kw["seed"], "session_idx": 0, "original_step": 0, "original_steps_in_session": 1,
                   "minimisation_trials": 0, "reproducible": True, "input": disp, "output_a": e["out"],
                   "plan": {"reqs": [req], "steps": [{"req": 0, "thread": "main", "policy": {"kind": "keep"}}]}},
                  open(pth, "w"), indent=1)
        classes.append({"class": cls, "kind": "illformed-rustc", "occurrences": 1, "replay": pth, "reproducible": True,
                        "input": disp, "detail": f"{msg} | attribute: {a}", "known": None})
    shutil.rmtree(d, ignore_errors=True)
    info = {"pairs_parsed": len(entries), "rustc_files": len(chunks), "builtin_attributes_probed": len(attrs),
            "texts_dropped_for_feature_gated_syntax": len(gated_total),
            "builtin_attributes_rejected": len(bad_attrs),
            "inputs_rustc_rejects_but_syn_accepts": len(bad_in),
            "examples_outside_premise": [(f"#[derive_ex({e['attr']})] {e['item']}"[:200], m) for e, m in bad_in[:5]],
            "outputs_rustc_rejects": len(bad_out), "wall_s": round(time.time() - t0, 1)}
    return info, classes, len(entries)


def replay_p(kw, path):
    """Replays an engine-P replay file: expand natively, let rustc parse input and output."""
    rf = json.load(open(path))
    req = rf["plan"]["reqs"][0]
    d = os.path.join(kw["out"], "engine-p-replay")
    shutil.rmtree(d, ignore_errors=True)
    os.makedirs(d)
    plan = os.path.join(d, "plan.json")
    json.dump(rf["plan"], open(plan, "w"))
    dump = os.path.join(d, "dump.jsonl")
    subprocess.run([kw["exe"], "exec-plan", "--plan", plan, "--out", os.path.join(d, "log.json"), "--dump", dump],
                   env={"PATH": "/usr/bin:/bin"}, capture_output=True, text=True)
    kw2 = dict(kw, jobs=1)
    os.makedirs(os.path.join(d, "dumpdir"))
    if os.path.exists(dump):
        shutil.move(dump, os.path.join(d, "dumpdir", "0.jsonl"))
    info, classes, _ = engine_p(dict(kw2, replays=d), os.path.join(d, "dumpdir"))
    print(json.dumps(info, indent=1))
    shutil.rmtree(d, ignore_errors=True)
    return bool(classes)


# --------------------------------------------------------------------------- engine M

def engine_m(kw, seeds):
    """The scripted session under Miri, `seeds` seeds; every seed must print the same digests."""
    sim = os.path.join(kw["verif"], "sim")
    env = _env()
    env["RUSTFLAGS"] = "--cfg frozenlib_derive_ex_verif"
    env["MIRIFLAGS"] = f"-Zmiri-many-seeds=0..{seeds} -Zmiri-preemption-rate=0.1"
    t0 = time.time()
    try:
        r = subprocess.run(["cargo", "+nightly", "miri", "run", "--offline", "--release", "--", "script"],
                           cwd=sim, env=env, capture_output=True, text=True, timeout=3600)
    except subprocess.TimeoutExpired:
        return {"skipped": "Miri run exceeded one hour"}, [], 0
    lines = [l for l in r.stdout.splitlines() if l.startswith("SCRIPT ")]
    finals = [l for l in lines if l.startswith("SCRIPT RESULT")]
    if not finals:
        return {"skipped": "Miri produced no result lines: " + r.stderr[-400:].replace("\n", " | ")}, [], 0
    distinct = sorted(set(finals))
    bad = [l for l in lines if l.startswith("SCRIPT VIOLATION")]
    classes = []
    if len(distinct) > 1 or bad:
        p = os.path.join(kw["replays"], "C16-miri-diverge.json")
        json.dump({"property": "C16", "class": "diverge under Miri seeds", "kind": "diverge", "engine": "M",
                   "detail": "the scripted session printed different digests under different Miri seeds "
                             "(OS randomness / addresses / preemption)",
                   "distinct_results": distinct, "violations": bad[:20],
                   "how_to_replay": f"cd sim && MIRIFLAGS='-Zmiri-many-seeds=0..{seeds} -Zmiri-preemption-rate=0.1' "
                                    "RUSTFLAGS='--cfg frozenlib_derive_ex_verif' cargo +nightly miri run --offline --release -- script",
                   "plan": {"reqs": [], "steps": []}, "input": "scripted session (sim/src/script.rs)",
                   "reproducible": True}, open(p, "w"), indent=1)
        classes.append({"class": "diverge under Miri seeds", "kind": "diverge", "occurrences": len(distinct),
                        "replay": p, "reproducible": True, "input": "scripted session (sim/src/script.rs)",
                        "detail": "; ".join(distinct[:3] + bad[:3])})
    n_exp = 0
    m = re.search(r"expansions=(\d+)", finals[0])
    if m:
        n_exp = int(m.group(1))
    return {"seeds_completed": len(finals), "seeds_requested": seeds, "expansions_per_seed": n_exp,
            "distinct_results": len(distinct), "wall_s": round(time.time() - t0, 1),
            "flags": env["MIRIFLAGS"]}, classes, n_exp * len(finals)


# --------------------------------------------------------------------------- entry

def run_extra(**kw):
    tier = kw["tier"]
    res = {"classes": [], "engines": {}, "notes": [], "assumptions": [], "evaluations": 0}
    res["engines"]["N"] = {
        "what": "native session simulator (dexsim): real derive-ex/src, syn, quote, structmeta; "
                "stubbed: proc_macro bridge -> proc-macro2 fallback, #[proc_macro*] wrappers -> verbatim copies "
                "in verif_hooks, RandomState -> keyed hasher seam",
        "ran": True,
    }
    # a hang or a crash found by engine N would only be found again, slowly, by the others
    fatal = [c for c in kw["native"].get("classes", []) if c.get("kind") in ("hang", "crash")]
    if fatal:
        for e in ("self_proof", "R-T", "R-D", "M"):
            res["engines"][e] = {"ran": False, "why": "engine N already reported a hang/crash class on this tree"}
        return res
    try:
        if tier == "quick":
            info, classes, ev = self_proof(kw, sessions=16, job_counts=[kw["jobs"], 6])
            res["engines"]["self_proof"] = info
            res["classes"] += classes
            res["evaluations"] += ev
            info, classes, ev = engine_p(kw, os.path.join(kw["native_out"], "dump"))
            res["engines"]["P"] = dict(info, what="rustc's parser (stable, real) over the inputs and outputs of the sweep "
                                                  "sessions and the first ordinary sessions, each in a cfg'd-out module")
            res["classes"] += classes
            res["evaluations"] += ev
            info, classes, ev = engine_r_t(kw, n_inputs=0, chunks=_chunks_for(kw, 0, 3), pool_stride=3)
            res["engines"]["R-T"] = dict(info, what="corpus and one third of the directed seeds, rotating with the seed "
                                                    "(all of them plus generated inputs in the thorough tier): "
                                                    "shipped dylib (guard off), real proc_macro bridge, real wrappers, stable "
                                                    "rustc --emit=metadata; verdict only on macro panics, message-less "
                                                    "compile_error! and `proc-macro derive produced unparsable tokens`; "
                                                    "nothing stubbed")
            res["classes"] += classes
            res["evaluations"] += ev
            res["engines"]["M"] = {"ran": False, "why": "thorough tier only (Miri costs ~10 s CPU per expansion)"}
            res["engines"]["R-D"] = {"ran": False, "why": "thorough tier only"}
        else:
            info, classes, ev = self_proof(kw, sessions=256, job_counts=[kw["jobs"], 4, 1])
            res["engines"]["self_proof"] = info
            res["classes"] += classes
            res["evaluations"] += ev
            info, classes, ev = engine_p(kw, os.path.join(kw["native_out"], "dump"))
            res["engines"]["P"] = dict(info, what="rustc's parser (stable, real) over the inputs and outputs of the sweep "
                                                  "sessions and the first ordinary sessions, each in a cfg'd-out module")
            res["classes"] += classes
            res["evaluations"] += ev
            info, classes, ev = engine_r_t(kw, n_inputs=16000, chunks=_chunks_for(kw, 16000, 1))
            res["engines"]["R-T"] = dict(info, what="shipped dylib (guard off), real proc_macro bridge, real wrappers, "
                                                    "stable rustc --emit=metadata; verdict only on macro panics and "
                                                    "message-less compile_error!; nothing stubbed")
            res["classes"] += classes
            res["evaluations"] += ev
            info, classes, ev = engine_r_d(kw, n_inputs=3000, processes=3)
            res["engines"]["R-D"] = dict(info, what="shipped dylib built with nightly, nightly rustc -Zunpretty=expanded in "
                                                    "separate processes, byte comparison; nothing stubbed")
            res["classes"] += classes
            res["evaluations"] += ev
            info, classes, ev = engine_m(kw, seeds=int(os.environ.get("VERIF_MIRI_SEEDS", "48")))
            res["engines"]["M"] = dict(info, what="dexsim `script` under Miri: hasher seam bypassed (real RandomState, "
                                                  "seeded by Miri), two concurrently expanding threads, seeded preemption "
                                                  "and addresses; stubbed: proc_macro bridge -> fallback")
            res["classes"] += classes
            res["evaluations"] += ev
    except HarnessError as e:
        import sys
        print(f"check: harness error: {e}", file=sys.stderr)
        sys.exit(2)
    return res
