//! The client's input generator: validity filter, structure-aware mutation operators and the
//! pure function `gen_input(root seed, index)`.
//!
//! Everything here is a pure function of its PRNG argument; nothing reads a clock, the
//! environment or a hash-ordered container.

use crate::corpus::{item_attrs_mut, Corpus};
use crate::req::{canon, lex, size_and_depth, Mode, Request};
use crate::rng::{derive_seed, Rng};
use proc_macro2::{Delimiter, Group, Ident, Literal, Punct, Spacing, Span, TokenStream, TokenTree};
use quote::{quote, ToTokens};
use syn::punctuated::Punctuated;
use syn::{Attribute, Field, Fields, GenericParam, Item, Token, Type, Variant};

pub const MAX_TOKENS: usize = 6000;
pub const MAX_DEPTH: usize = 48;

/// The property's premise: the item is syntactically valid (as an item for the attribute
/// macro, as a struct/enum/union for the derive macro) and survives print → re-lex → re-parse
/// unchanged; the attribute arguments are any balanced token stream. Size and nesting depth
/// are bounded (stated in the evidence).
pub fn is_valid_request(r: &Request) -> bool {
    let (Some(attr), Some(item)) = (lex(&r.attr), lex(&r.item)) else {
        return false;
    };
    let (n1, d1) = size_and_depth(&attr);
    let (n2, d2) = size_and_depth(&item);
    if n1 + n2 > MAX_TOKENS || d1.max(d2) > MAX_DEPTH {
        return false;
    }
    if r.mode == Mode::Derive && !r.attr.is_empty() {
        return false;
    }
    // the item must parse (as an item for the attribute macro, as a struct / enum / union for
    // the derive macro); it need not be in syn's own printed form (`impl<> Add<> for X` is a
    // valid input although syn re-prints it without the empty angle brackets)
    match r.mode {
        Mode::Attr => match syn::parse2::<Item>(item.clone()) {
            Ok(Item::Verbatim(_)) => return false,
            Ok(_) => {}
            Err(_) => return false,
        },
        Mode::Derive => {
            if syn::parse2::<syn::DeriveInput>(item.clone()).is_err() {
                return false;
            }
        }
    }
    // and the printed form must lex back to the same tokens
    match lex(&crate::req::print(&item)) {
        Some(t) => canon(&t) == canon(&item),
        None => false,
    }
}

/// A request under construction.
#[derive(Clone)]
pub struct Cand {
    pub mode: Mode,
    pub attr: TokenStream,
    pub item: Item,
}
impl Cand {
    pub fn from_request(r: &Request) -> Option<Self> {
        let attr = lex(&r.attr)?;
        let item = lex(&r.item)?;
        let item: Item = syn::parse2(item).ok()?;
        Some(Self {
            mode: r.mode,
            attr,
            item,
        })
    }
    pub fn to_request(&self) -> Request {
        Request::new(self.mode, &self.attr, &self.item.to_token_stream())
    }
}

pub const TRAITS: &[&str] = &[
    "Add", "BitAnd", "BitOr", "BitXor", "Div", "Mul", "Rem", "Shl", "Shr", "Sub", "AddAssign",
    "BitAndAssign", "BitOrAssign", "BitXorAssign", "DivAssign", "MulAssign", "RemAssign",
    "ShlAssign", "ShrAssign", "SubAssign", "Neg", "Not", "Ord", "PartialOrd", "Eq", "PartialEq",
    "Hash", "Copy", "Clone", "Debug", "Default", "Deref", "DerefMut",
];
const UNKNOWN_TRAITS: &[&str] = &[
    "Index", "From", "Display", "clone", "PartialEqq", "AddAssignAssign", "Assign", "r#Clone",
    "Sized", "Send", "AsRef", "Iterator", "Ex", "derive_ex", "bound", "dump", "Self", "Fn",
    "@long1100",
    // non-ASCII names: multi-byte characters at every offset from either end
    "Z\u{e4}hlung", "\u{c4}pfell", "Add\u{c4}ssign", "\u{540d}Clone", "\u{6f14}\u{7b97}\u{5b50}X", "Gr\u{f6}\u{df}e",
    "\u{c4}Assign", "\u{52a0}Assign", "\u{dc}n\u{ef}c\u{f6}d\u{e9}", "\u{52a0}\u{6cd5}\u{904b}\u{7b97}", "Clon\u{e9}", "\u{e9}Clone",
    "A\u{e9}", "Ab\u{e9}", "Abc\u{e9}", "Abcd\u{e9}", "Abcde\u{e9}", "\u{e9}A", "\u{e9}Ab", "\u{e9}Abc", "\u{e9}Abcd", "\u{e9}Abcde",
    "\"a\\\"b\"", "'\\''", "\"{}\"", "\"{0}\"", "\"\\n\"", "\"%s\"", "r#\"\"\"#", "Clone\u{301}", "/** doc */ Clone",
    "::core::clone::Clone", "std::ops::Add", "core::ops::AddAssign", "Clone<T>", "Add::<u8>", "crate::Add", "self::Clone", "Clone::Clone",
    "<T as Tr>::Clone", "Clone!", "&Clone", "dyn Clone", "?Sized", "'a", "1", "\"Clone\"", "Clone = 1", "Clone: Copy", "Clone + Copy", "(Clone)", "[Clone]", "{Clone}",
    "\u{10400}A", "A\u{10400}", "Ab\u{10400}cdef", "\u{1e9e}Assign", "Ord\u{e9}", "Partial\u{e9}q", "Deref\u{e9}Mut",
];
pub fn unknown_traits() -> &'static [&'static str] {
    UNKNOWN_TRAITS
}
pub fn helper_attrs() -> &'static [&'static str] {
    HELPER_ATTRS
}
const HELPER_ATTRS: &[&str] = &[
    "#[ord(ignore)]",
    "#[ord(reverse)]",
    "#[ord(key = $.len())]",
    "#[ord(key = $)]",
    "#[ord(key = ($.0, $.1))]",
    "#[ord(by = |a, b| a.cmp(b))]",
    "#[ord(by = f)]",
    "#[ord(bound(T))]",
    "#[ord(bound(..))]",
    "#[ord(bound())]",
    "#[ord(ignore, reverse)]",
    "#[ord(key = $.len(), by = f)]",
    "#[ord(key = $.len(), bound(T : Ord))]",
    "#[partial_ord(ignore)]",
    "#[partial_ord(reverse)]",
    "#[partial_ord(key = $.0)]",
    "#[partial_ord(by = f)]",
    "#[partial_ord(by = |a, b| a.partial_cmp(b))]",
    "#[partial_ord(bound(T : PartialOrd))]",
    "#[eq(ignore)]",
    "#[eq(key = $.to_string())]",
    "#[eq(by = |a, b| a == b)]",
    "#[eq(bound(T))]",
    "#[eq(reverse)]",
    "#[partial_eq(ignore)]",
    "#[partial_eq(key = ($.0, $.1))]",
    "#[partial_eq(key = $.len())]",
    "#[partial_eq(by = f)]",
    "#[partial_eq(bound(T, ..))]",
    "#[hash(ignore)]",
    "#[hash(key = $.len())]",
    "#[hash(by = |a, h| a.hash(h))]",
    "#[hash(bound(T : ::core::hash::Hash))]",
    "#[hash(reverse)]",
    "#[debug(ignore)]",
    "#[debug(transparent)]",
    "#[debug(bound(T))]",
    "#[debug(ignore, transparent)]",
    "#[debug(bound(T : ::core::fmt::Debug, ..))]",
    "#[default]",
    "#[default(5)]",
    "#[default(\"abc\")]",
    "#[default(_)]",
    "#[default(_, bound(T))]",
    "#[default(X::A)]",
    "#[default = 1]",
    "#[default()]",
    "#[default(Self::new())]",
    "#[default(String::new(), bound())]",
    "#[default(1, 2)]",
    "#[derive_ex(Clone)]",
    "#[derive_ex(Clone(bound(T)))]",
    "#[derive_ex(Clone, bound(T))]",
    "#[derive_ex(Default, Clone, bound(T, ..))]",
    "#[derive_ex(bound(T))]",
    "#[derive_ex(Debug(bound()))]",
    "#[derive_ex(Ord, PartialOrd, Eq, PartialEq, Hash)]",
    "#[derive_ex(Ord(bound(T)), PartialOrd(bound(U)), Eq(bound(..)), PartialEq, Hash(bound()))]",
    "#[derive_ex(Add, AddAssign)]",
    "#[derive_ex(Deref, DerefMut)]",
    "#[derive_ex(dump)]",
    "#[derive_ex(Clone(dump))]",
    "#[derive_ex(Copy, Clone, Debug, Default)]",
    "#[derive_ex(Copy(bound(T : Copy)), Clone(bound(T : Clone)))]",
    "#[derive_ex]",
    "#[derive_ex()]",
    "#[derive_ex = 1]",
    "#[derive_ex(Neg, Not)]",
    "#[ord]",
    "#[eq]",
    "#[hash]",
    "#[debug]",
    "#[partial_eq]",
    "#[partial_ord]",
    "#[ord = 1]",
    "#[debug = \"x\"]",
    "#[doc = \"x\"]",
    "#[allow(dead_code)]",
    "#[cfg(test)]",
    "#[serde(default)]",
    "#[ord::x]",
    "#[repr(C)]",
];
/// Expressions for `key = ...` / `by = ...`: the template placeholder (`$`, or the reserved
/// identifier it is rewritten to) in expression and non-expression positions, with and without
/// a `$` elsewhere in the same attribute.
pub const KEY_EXPRS: &[&str] = &[
    "$", "$.0", "$.len()", "($.0, $.1)", "&$", "*$", "$ as u8", "$[0]", "f($)", "m!($)", "[$, $]",
    "{ let a = $; a }", "|a| $", "if $ { 1 } else { 2 }", "-$", "!$", "$?", "$.await", "$ + $",
    "{ let $ = 1; 0 }", "|$| 1", "$::K", "S { $: 1 }", "x.$", "$!()", "$ { a: 1 }", "$::<u8>()",
    "match 1 { $ => 2 }", "'a: loop { $ }", "$ = 1", "for $ in 0..1 {}", "x::$::y",
    "__placeholder", "__placeholder.0", "__placeholder.len()", "{ let __placeholder = 1; 0 }",
    "|__placeholder| 1", "__placeholder::K", "S { __placeholder: 1 }", "x.__placeholder",
    "__placeholder!()", "match 1 { __placeholder => 2 }", "{ let __placeholder = 1; $ }",
    "x.__placeholder + $", "(__placeholder, $)", "r#__placeholder", "for __placeholder in 0..1 {}",
    "Some(1).map(|$| 0)", "f(1).$", "f(1).$()", "(1).$", "{ g(1); let $ = 1; 0 }", "[1][0].$", "m!(1).$", "(a, b).0.$", "f(1)(|$| 1)",
    "{ f(1) }; $", "f((1), $)", "f({ 1 }, |$| 2)", "x[f(1)].$ = 2", "S { a: (1), $: 2 }", "match (1) { $ => 2 }", "g::<{ 1 }>($)", "(1, 2).$", "[(1)].iter().map(|$| 1)",
    "1", "\"s\"", "()", "x", "self", "Self::K", "this", "other", "state", "_self_0", "|a, b| a == b",
    "f", "f64::total_cmp", "|a, h| a.hash(h)", "|a, b| a.partial_cmp(b)", "|a, b| a.cmp(b)",
];
/// Expressions for `#[default(<expr>)]` (and reused for key/by): every syntactic class of
/// expression, in particular those that begin with a block-like expression, which are not
/// expressions any more when spliced at the start of a statement or match arm.
pub const VALUE_EXPRS: &[&str] = &[
    "1", "-1", "1.5", "\"s\"", "'c'", "b\"x\"", "true", "_", "x", "X", "X::A", "Self::A", "r#type",
    "::core::default::Default::default()", "Self::new()", "X(1)", "X { a: 1 }", "X::<T>::new()",
    "(1, 2)", "()", "[1, 2]", "[0; 3]", "&1", "&mut 1", "*x", "!x", "-x", "1 + 2", "a && b",
    "a as u8", "a..b", "..", "a..=b", "x?", "x.y", "x.0", "x[0]", "f()", "x.f()", "|a| a", "move || 1",
    "m!()", "m![1]", "m! { 1 }", "{ 1 }", "{ X(1) } + X(2)", "{ 1 } - 1", "{ a }.b()", "{ a }.0",
    "{ a } as u8", "{ f }(1)", "{ a }[0]", "{ a }?", "{ a }..", "{ a } = 1",
    "if a { 1 } else { 2 }", "if a { 1 } else { 2 } + 3", "match x { _ => 1 }", "match x { _ => 1 } - 1",
    "unsafe { 1 }", "unsafe { 1 } * 2", "loop { break 1 }", "loop { break 1 } + 1", "'a: { 1 }",
    "async { 1 }", "const { 1 }", "while a {}", "for a in b {}", "return", "return 1", "break",
    "continue", "let a = 1", "a = 1", "a += 1", "x.await", "#[a] 1", "(1)", "((1))", "1, 2", "1;",
    "{ let a = 1; a }", "X { a: { 1 } + 2 }", "if let Some(a) = b { a } else { c }",
    "[1; N]", "<T as Tr>::f()", "T::default()", "T::C", "<T>::C", "Vec::<T>::new()", "vec![T::default()]",
    "::a::b", "a::<T>::b", "<T>::default()", "(_)", "__ng(_)", "__ng(1)", "1,", "_,", "-1i8", "-1.0", "- 1", "!0", "*&1",
    "1u8", "1_000", "0x1f", "0b1", "1e3", "1.", "1f32", "-1.5e-3", "1usize", "340282366920938463463374607431768211455",
    "r\"raw\"", "r#\"ra\"w\"#", "b'x'", "br\"x\"", "c\"x\"", "'\\n'", "\"\\u{e9}\\n\\\"\"", "\"\"", "'\u{e9}'",
    "\u{e9}", "\u{540d}::\u{524d}", "r#type", "r#type::r#match", "'a: loop {}", "&'static str", "<'a>",
    "async move { 1 }", "|| -> u8 { 1 }", "for<'a> |x: &'a u8| x", "builtin # offset_of(A, b)", "unsafe { f() }.g", "x.await?", "a.b::<T>()", "<T as Tr>::f::<U>(1)",
    "static || 1", "async |x| x", "do yeet 1", "become f()", "yield 1", "try { 1 }", "gen { yield 1 }", "x as *const T as usize", "&raw const x", "&raw mut x",
    "[1, 2][..1]", "(1..=2).len()", "..=2", "x..", "1 .. 2 .. 3", "a < b > c", "a as u8 < b", "x.0.0", "x.0 .0", "1.0.0", "r#\"a\"#.len()",
];
pub const TYPES: &[&str] = &[
    "u8", "String", "T", "U", "Vec<T>", "Option<T>", "&'a T", "&'a str", "[T; N]", "[u8; 3]",
    "(T, u8)", "()", "fn(T) -> T", "dyn A + B", "dyn A", "Box<dyn Fn(T) -> T>",
    "<T as Tr>::Assoc", "T::Assoc", "Self", "Box<Self>", "PhantomData<T>", "*const T", "!",
    "impl Tr", "impl A + B", "r#type", "::std::string::String", "[T]", "H", "&mut T",
    "Wrapping<u8>", "mac!(T)", "_", "&T", "&'static str", "f64", "X<T>", "Vec<Vec<Option<T>>>",
    "dyn for<'x> Fn(&'x T) + Send", "&dyn A", "A + B", "Box<dyn A + B + 'a>", "core::cell::Cell<T>",
    "fn() -> dyn A", "[(); N]", "<Self as Tr>::Assoc", "X<{ N + 1 }>", "X<'a, T, N>",
    "(dyn A + B)", "Box<(dyn A + B)>",
    // names of std types a special case in the expander might key on, bare and qualified
    "::core::marker::PhantomData<T>", "std::marker::PhantomData<u8>", "PhantomData<&'a T>", "PhantomData<fn() -> T>",
    "Box<T>", "Rc<T>", "Arc<T>", "RefCell<T>", "Mutex<T>", "Cow<'a, T>", "Pin<Box<T>>", "Result<T, U>", "Option<u8>",
    "std::option::Option<T>", "::std::vec::Vec<u8>", "str", "&'a [T]", "Box<str>", "Box<[T]>", "HashMap<T, U>",
    "BTreeMap<u8, T>", "f32", "bool", "char", "usize", "i128", "NonZeroU8", "OrderedFloat<f64>", "Infallible",
    "PhantomPinned", "ManuallyDrop<T>", "MaybeUninit<T>", "UnsafeCell<T>", "AtomicUsize", "Duration",
    // newer or unstable syntax that syn keeps as verbatim / special nodes
    "impl Tr + use<>", "pattern_type!(u32 is 1..)",
    "Box<dyn Tr<A: Copy>>", "impl Tr<A = impl Copy>", "X<{ const { 1 } }>", "&'static mut dyn for<'x> Tr<'x, Out = &'x T>",
    "[u8; 0]", "[u8; 18446744073709551615]", "[u8; 340282366920938463463374607431768211455]", "X<9223372036854775807>", "X<-9223372036854775808>",
    "X<N>", "X<-1>", "X<{ -1 }>", "X<'static, T>", "for<'a> fn(&'a T) -> &'a T", "dyn for<'a> Tr<'a, T>", "T<u8>", "N", "Self::Assoc", "Self::T",
    "Tr<T>", "m![T; N]", "m! { T }", "::X<T>", "X::<T>", "&'a X<'a, &'a T>", "[[T; N]; N]", "(T,)", "((T,), (U,))",
    "extern \"C\" fn(u8, ...) -> u8", "unsafe extern \"C-unwind\" fn()", "<T>::Assoc", "<<T as A>::B as C>::D", "T::A::B", "crate::X", "super::X<T>", "self::X",
];
const TYPE_WRAPS: &[&str] = &[
    "Option<__>", "&'a __", "[__; N]", "fn(__) -> __", "Box<__>", "(__,)", "*mut __", "&__",
    "[__]", "(__)", "Vec<__>", "(__, __)", "&mut __", "PhantomData<__>", "<__ as Tr>::Assoc",
];
pub const GENERIC_PARAMS: &[&str] = &[
    "T", "U", "'a", "'b", "const N: usize", "T: Clone", "T: ?Sized", "T = u8",
    "const M: usize = 3", "r#type", "H", "'a: 'b", "T: Tr<U>", "T: for<'x> Fn(&'x u8)", "Self_",
    "A", "F: Fn(T) -> T", "T: 'a + Copy", "const B: bool",
    "'static_", "'r#type", "'_a", "\u{e9}", "\u{540d}: Clone", "const \u{3b1}: usize", "'\u{e9}", "T: ?Sized + 'a",
    "const N: usize = { 1 + 1 }", "T: Tr<A = u8>", "T: Tr<{ 1 }>", "#[cfg(x)] T", "#[ord(ignore)] T",
    "T: [const] Tr", "T: Tr<A: Copy>", "T: Tr<A = impl Copy>", "T: for<'x> Tr<'x> + ?Sized", "T: 'static + for<'x, 'y> Fn(&'x u8, &'y u8) -> &'x u8",
    "const N: usize = 0x10", "const C: char = 'x'", "const B: bool = { true }", "T: ::core::clone::Clone", "T: (Clone)", "T: ?Sized + (Tr)",
];
pub const WHERE_PREDS: &[&str] = &[
    "T: Copy",
    "for<'b> &'b T: ::core::ops::Add<Output = T>",
    "Self: Sized",
    "[T; N]: Default",
    "'a: 'b",
    "T::Assoc: Clone",
    "<T as Tr>::Assoc: Clone",
    "Vec<T>: Clone",
    "T: 'a",
    "u8: Copy",
    "T:",
    "Self: Clone",
    "Option<Self>: Clone",
    "dyn A + B: Tr",
    "for<'b> Self: Tr<'b>",
    "for<'b, 'c> &'b Self: Tr<'c>",
    "for<'b,> Self: Copy",
    "for<> Self: Copy",
    "Vec<Self>: Clone",
    "T: Tr<Self>",
    "Self::Output: Copy",
    "<Self as Add>::Output: Copy",
    "for<'b> fn(&'b Self) -> Self: Copy",
    "[Self; 2]: Default",
    "Self: for<'b> Tr<'b> + ?Sized + 'static",
    "for<'a, T2> T: Tr<'a, T2>",
    "T: Tr<A: Copy>",
    "T: [const] Tr",
    "(T): Copy",
    "(T, T): Copy",
    "[T]: ToOwned",
    "fn(T): Copy",
    "*const T: Copy",
    "!: Copy",
];
pub const IDENTS: &[&str] = &[
    "r#type", "r#match", "r#fn", "H", "this", "other", "state", "to_index", "_self_0", "_0",
    "__placeholder", "f", "source", "rhs", "lhs", "o", "self_", "donn\u{e9}es", "_x", "x", "X", "T",
    "N", "Output", "Target", "_eq", "_f", "Self_", "core", "std", "a", "Ordering", "Option",
    "_other_0", "_this_0", "__eq__0", "r#Self_", "value", "r#self_", "eq", "cmp", "hash", "fmt",
    "clone", "default", "i", "l", "r", "_", "__", "r#dyn", "r#async", "usize", "bool", "Some",
    "@long300", "@long1100", "@long5000",
    "\u{540d}\u{524d}", "\u{3b1}\u{3b2}", "\u{e9}", "x\u{301}", "\u{421}lone", "r#\u{e9}t\u{e9}", "Add\u{e9}Assign",
    "\u{e9}Assign", "Assign", "_Assign", "AssignAssign", "a1", "_1", "__0", "A_", "CONST", "static_",
];
const BOUND_ARGS: &[&str] = &[
    "T", "..", "T: Clone", "T, ..", "", "Vec<T>", "T: Clone + 'static, U",
    "for<'a> &'a T: Add", "'a: 'b", "1", "T = u8", ",", "T:", "dyn A + B", "&'a T", "Self",
    "T: ?Sized", "..,..", "T, T", "[T; N]", "..T", "T..", "<T as Tr>::Assoc: Clone", "()",
    "fn(T)", "T: Fn(u8) -> u8", "'a", "_",
];
const ATTR_TOKENS: &[&str] = &[
    ",", "=", "..", "$", "()", "bound", "dump", "ignore", "reverse", "key", "by", "transparent",
    "T", "Self", "1", "\"s\"", "1.0", "'c'", "b\"x\"", "true", "'a", "::", "|a, b| a == b",
    "[]", "{}", "!", "#", "?", "+", "->", "=>", "$.0", "$$", "(bound(T))", "(dump)", "r#type",
    "Clone", "Default", "Ord", "Add", "Deref", ";", ":", "<", ">", "&", "*", "-1", "1u8",
    "r\"raw\"", "r#\"raw\"#", "c\"cstr\"", "0x1f", "1e3", "_", "..=", "...", "@", "~",
];
const ALT_ITEMS: &[&str] = &[
    "fn f() {}",
    "trait Tr { fn f(&self); }",
    "mod m { struct X; }",
    "mod m;",
    "union U { a: u8, b: u32 }",
    "union U<T: Copy> { a: T, b: u32 }",
    "type A = u8;",
    "const C: u8 = 0;",
    "static S: u8 = 0;",
    "use std::fmt;",
    "impl X { fn f() {} }",
    "impl !Send for X {}",
    "unsafe impl Send for X {}",
    "extern crate core;",
    "macro_rules! m { () => {} }",
    "compile_error!(\"user\");",
    "compile_error!();",
    "m!();",
    "std::thread_local! { static X: u8 = 0; }",
    "::a::b! {}",
    "a::b![1, 2];",
    "a::b::c!(x);",
    "self::m! { struct X; }",
    "crate::m!();",
    "m! { #[derive_ex(Clone)] struct X; }",
    "pub(crate) fn f<T: Clone>(t: T) -> T where T: Copy { t }",
    "async fn f() {}",
    "const fn f() {}",
    "unsafe extern \"C\" fn f() {}",
    "unsafe trait Tr {}",
    "auto trait Tr {}",
    "pub trait Tr<T>: Clone where T: Copy { type A; const C: u8; fn f(&self) {} }",
    "impl<T> Tr for T {}",
    "pub use a::{b, c as d, e::*};",
    "type A<T> = Vec<T>;",
    "static mut S: u8 = 0;",
    "const _: () = ();",
    "extern \"C\" { static S: u8; type T; }",
    "mod m { #![allow(unused)] fn f() {} }",
    "macro_rules! m { ($a:expr) => { $a }; }",
    "enum E<T> where T: Copy { A(T) }",
    "extern \"C\" { fn f(); }",
    "impl<T> Add for X<T> {}",
    "impl Add for X { type Output = X; fn add(self, rhs: X) -> X { self } }",
    "impl Add<&X> for &X { type Output = X; fn add(self, rhs: &X) -> X { X } }",
    "impl AddAssign<u8> for X { fn add_assign(&mut self, rhs: u8) {} }",
    "impl<T> core::ops::Mul<T> for X<T> where T: Copy { type Output = Self; fn mul(self, rhs: T) -> Self { self } }",
    "impl Add for dyn A + B { type Output = u8; fn add(self, rhs: Self) -> u8 { 0 } }",
    "impl Neg for X { type Output = X; fn neg(self) -> X { self } }",
    "impl Add<X, Y> for X { type Output = X; }",
    "impl Add<'a> for X { type Output = X; }",
    "impl Add<> for X { type Output = X; }",
    "impl Add<{ 1 }> for X { type Output = X; }",
    "impl Add for W<Self> { type Output = Self; fn add(self, rhs: Self) -> Self { self } }",
    "impl Add<Self> for (Self, u8) { type Output = Self; }",
    "impl<T: Tr<Self>> Add<T> for [Self; 2] where Self: Sized { type Output = Option<Self>; }",
    "impl AddAssign<&Self> for Box<Self> { fn add_assign(&mut self, rhs: &Self) {} }",
    "impl ::core::ops::Sub for X { type Out = X; }",
    "impl Sub for &'a X { type Output = X; fn sub(self, rhs: Self) -> X { X } }",
    "impl Sub for &mut X { type Output = X; fn sub(self, rhs: Self) -> X { X } }",
    "impl Sub<Self> for X { type Output = Self; fn sub(self, rhs: Self) -> Self { self } }",
    "impl Shl<(X, X)> for [X; 2] { type Output = (X,); fn shl(self, rhs: (X, X)) -> (X,) { todo!() } }",
    "struct X;",
    "struct X();",
    "struct X {}",
    "enum E {}",
    "trait Alias = Clone;",
    // what rustc hands an attribute macro placed on a trait / impl / foreign item
    "fn f();",
    "fn f(&self);",
    "fn f(&self) {}",
    "fn f(self: Box<Self>) -> Self;",
    "type A;",
    "type A: Clone;",
    "type A<T>: Clone where T: Copy;",
    "const C: u8;",
    "static S: u8;",
    "static mut S: u8;",
    "pub(self) fn f<T>(&mut self, t: T) where T: Copy;",
    "struct X<T>(T) where T: Copy;",
    "enum E { A = 1, B = 2 }",
    "union U {}",
    "impl Trait for X {}",
    "impl<T> X<T> { const C: u8 = 0; }",
    "impl const Add for X { type Output = X; }",
    "impl<T> !Add for X<T> {}",
    "macro m() {}",
    "pub macro m($a:expr) { $a }",
];
pub fn alt_items() -> &'static [&'static str] {
    ALT_ITEMS
}

fn ps<T: syn::parse::Parse>(s: &str) -> Option<T> {
    syn::parse_str(s).ok()
}
fn attr_from(s: &str) -> Option<Attribute> {
    let f: syn::ItemStruct = ps(&format!("{s} struct X;"))?;
    f.attrs.into_iter().next()
}
/// `<ident><n>` without the `r#` prefix; never panics.
fn suffixed(id: &Ident, sep: &str, n: usize) -> Ident {
    let base = id.to_string();
    let base = base.trim_start_matches("r#");
    syn::parse_str::<Ident>(&format!("{base}{sep}{n}"))
        .unwrap_or_else(|_| Ident::new(&format!("g{n}"), Span::call_site()))
}
/// Dictionary entries starting with `@long` stand for identifiers of that many characters.
pub fn ident_text(s: &str) -> String {
    match s.strip_prefix("@long") {
        Some(n) => {
            let n: usize = n.parse().unwrap_or(300);
            let mut t = String::from("L");
            while t.len() < n {
                t.push_str("ong_identifier_");
            }
            t.truncate(n);
            t
        }
        None => s.to_string(),
    }
}
fn mk_ident(s: &str) -> Option<Ident> {
    if s == "_" {
        return None;
    }
    syn::parse_str::<Ident>(&ident_text(s)).ok()
}

// ---------------------------------------------------------------- access helpers

fn fields_lists(item: &mut Item) -> Vec<&mut Fields> {
    match item {
        Item::Struct(s) => vec![&mut s.fields],
        Item::Enum(e) => e.variants.iter_mut().map(|v| &mut v.fields).collect(),
        _ => vec![],
    }
}
fn fields_vec(fields: &mut Fields) -> Option<&mut Punctuated<Field, Token![,]>> {
    match fields {
        Fields::Named(n) => Some(&mut n.named),
        Fields::Unnamed(u) => Some(&mut u.unnamed),
        Fields::Unit => None,
    }
}
fn attr_slots(item: &mut Item) -> Vec<&mut Vec<Attribute>> {
    let mut v: Vec<&mut Vec<Attribute>> = Vec::new();
    match item {
        Item::Struct(s) => {
            v.push(&mut s.attrs);
            for f in s.fields.iter_mut() {
                v.push(&mut f.attrs);
            }
        }
        Item::Enum(e) => {
            v.push(&mut e.attrs);
            for var in e.variants.iter_mut() {
                v.push(&mut var.attrs);
                for f in var.fields.iter_mut() {
                    v.push(&mut f.attrs);
                }
            }
        }
        Item::Union(u) => {
            v.push(&mut u.attrs);
            for f in u.fields.named.iter_mut() {
                v.push(&mut f.attrs);
            }
        }
        other => {
            if let Some(a) = item_attrs_mut(other) {
                v.push(a);
            }
        }
    }
    v
}
fn generics_of(item: &mut Item) -> Option<&mut syn::Generics> {
    Some(match item {
        Item::Struct(s) => &mut s.generics,
        Item::Enum(e) => &mut e.generics,
        Item::Impl(i) => &mut i.generics,
        Item::Union(u) => &mut u.generics,
        _ => return None,
    })
}
fn punct_remove<T: Clone, P: Default>(p: &mut Punctuated<T, P>, idx: usize) {
    let mut items: Vec<T> = p.iter().cloned().collect();
    items.remove(idx);
    *p = items.into_iter().collect();
}
fn punct_set<T: Clone, P: Default>(p: &mut Punctuated<T, P>, items: Vec<T>) {
    *p = items.into_iter().collect();
}
fn punct_vec<T: Clone, P>(p: &Punctuated<T, P>) -> Vec<T> {
    p.iter().cloned().collect()
}

fn tts(ts: &TokenStream) -> Vec<TokenTree> {
    ts.clone().into_iter().collect()
}
fn from_tts(v: Vec<TokenTree>) -> TokenStream {
    v.into_iter().collect()
}

// ---------------------------------------------------------------- trait lists

fn bound_list(rng: &mut Rng) -> String {
    let n = rng.weighted(&[2, 5, 3, 1]);
    let mut parts = Vec::new();
    for _ in 0..n {
        parts.push(rng.pick_str(BOUND_ARGS).to_string());
    }
    format!("bound({})", parts.join(", "))
}

pub fn trait_list(rng: &mut Rng) -> String {
    let n = rng.weighted(&[1, 6, 5, 3, 2, 1, 1]);
    let mut parts: Vec<String> = Vec::new();
    for _ in 0..n {
        let name = if rng.chance(1, 12) {
            ident_text(rng.pick_str(UNKNOWN_TRAITS))
        } else {
            rng.pick_str(TRAITS).to_string()
        };
        let args = match rng.weighted(&[12, 3, 1, 1, 1]) {
            0 => String::new(),
            1 => format!("({})", bound_list(rng)),
            2 => "(dump)".to_string(),
            3 => format!("({}, dump)", bound_list(rng)),
            _ => "()".to_string(),
        };
        parts.push(format!("{name}{args}"));
    }
    if rng.chance(1, 5) {
        let b = bound_list(rng);
        let at = rng.below(parts.len() + 1);
        parts.insert(at, b);
    }
    if rng.chance(1, 25) {
        let at = rng.below(parts.len() + 1);
        parts.insert(at, "dump".into());
    }
    let mut s = parts.join(if rng.chance(1, 40) { " " } else { ", " });
    if rng.chance(1, 10) {
        s.push(',');
    }
    s
}

// ---------------------------------------------------------------- token-level edits

/// Applies one random edit somewhere inside `ts` (any nesting level).
fn edit_tokens(ts: &TokenStream, rng: &mut Rng) -> TokenStream {
    let mut v = tts(ts);
    // descend into a group with some probability
    let groups: Vec<usize> = v
        .iter()
        .enumerate()
        .filter(|(_, t)| matches!(t, TokenTree::Group(_)))
        .map(|(i, _)| i)
        .collect();
    if !groups.is_empty() && rng.chance(1, 2) {
        let gi = *rng.pick(&groups);
        if let TokenTree::Group(g) = &v[gi] {
            let inner = edit_tokens(&g.stream(), rng);
            let delim = if rng.chance(1, 30) {
                *rng.pick(&[Delimiter::Parenthesis, Delimiter::Brace, Delimiter::Bracket])
            } else {
                g.delimiter()
            };
            v[gi] = TokenTree::Group(Group::new(delim, inner));
        }
        return from_tts(v);
    }
    let op = if v.is_empty() { 3 } else { rng.weighted(&[4, 3, 2, 5, 3, 2]) };
    match op {
        0 => {
            let i = rng.below(v.len());
            v.remove(i);
        }
        1 => {
            let i = rng.below(v.len());
            let t = v[i].clone();
            v.insert(i, t);
        }
        2 => {
            if v.len() >= 2 {
                let i = rng.below(v.len() - 1);
                v.swap(i, i + 1);
            }
        }
        3 => {
            let frag = rng.pick_str(ATTR_TOKENS);
            if let Some(f) = lex(frag) {
                let i = rng.below(v.len() + 1);
                let tail: Vec<TokenTree> = v.split_off(i);
                v.extend(f);
                v.extend(tail);
            }
        }
        4 => {
            // replace one token by a dictionary fragment
            let i = rng.below(v.len());
            let frag = if matches!(v[i], TokenTree::Ident(_)) && rng.chance(1, 2) {
                if rng.chance(1, 2) {
                    rng.pick_str(TRAITS).to_string()
                } else {
                    ident_text(rng.pick_str(IDENTS))
                }
            } else {
                rng.pick_str(ATTR_TOKENS).to_string()
            };
            if let Some(f) = lex(&frag) {
                let tail: Vec<TokenTree> = v.split_off(i + 1);
                v.pop();
                v.extend(f);
                v.extend(tail);
            }
        }
        _ => {
            // delete a range
            let i = rng.below(v.len());
            let j = (i + rng.range(1, 4)).min(v.len());
            v.drain(i..j);
        }
    }
    from_tts(v)
}

// ---------------------------------------------------------------- mutation operators

type Op = fn(&mut Cand, &mut Rng, &Pool) -> bool;

/// Other inputs to splice from.
pub struct Pool<'a> {
    pub corpus: &'a Corpus,
    pub directed: &'a [Request],
}
impl Pool<'_> {
    /// 60 % test-suite / documentation items, 40 % directed seeds.
    pub fn any_request(&self, rng: &mut Rng) -> Option<&Request> {
        if self.corpus.entries.is_empty() && self.directed.is_empty() {
            return None;
        }
        let from_corpus = self.directed.is_empty() || (!self.corpus.entries.is_empty() && rng.chance(3, 5));
        Some(if from_corpus {
            &self.corpus.entries[rng.below(self.corpus.entries.len())].req
        } else {
            &self.directed[rng.below(self.directed.len())]
        })
    }
    fn any(&self, rng: &mut Rng) -> Option<Cand> {
        Cand::from_request(self.any_request(rng)?)
    }
}

fn op_attr_delete(c: &mut Cand, rng: &mut Rng, _: &Pool) -> bool {
    let mut slots = attr_slots(&mut c.item);
    let nonempty: Vec<usize> = (0..slots.len()).filter(|i| !slots[*i].is_empty()).collect();
    if nonempty.is_empty() {
        return false;
    }
    let s = *rng.pick(&nonempty);
    let i = rng.below(slots[s].len());
    slots[s].remove(i);
    true
}
fn op_attr_duplicate(c: &mut Cand, rng: &mut Rng, _: &Pool) -> bool {
    let mut slots = attr_slots(&mut c.item);
    let nonempty: Vec<usize> = (0..slots.len()).filter(|i| !slots[*i].is_empty()).collect();
    if nonempty.is_empty() {
        return false;
    }
    let s = *rng.pick(&nonempty);
    let i = rng.below(slots[s].len());
    let a = slots[s][i].clone();
    slots[s].insert(i, a);
    true
}
fn op_attr_swap(c: &mut Cand, rng: &mut Rng, _: &Pool) -> bool {
    let mut slots = attr_slots(&mut c.item);
    let multi: Vec<usize> = (0..slots.len()).filter(|i| slots[*i].len() >= 2).collect();
    if multi.is_empty() {
        return false;
    }
    let s = *rng.pick(&multi);
    let i = rng.below(slots[s].len() - 1);
    slots[s].swap(i, i + 1);
    true
}
fn op_attr_move(c: &mut Cand, rng: &mut Rng, _: &Pool) -> bool {
    let mut slots = attr_slots(&mut c.item);
    if slots.len() < 2 {
        return false;
    }
    let nonempty: Vec<usize> = (0..slots.len()).filter(|i| !slots[*i].is_empty()).collect();
    if nonempty.is_empty() {
        return false;
    }
    let s = *rng.pick(&nonempty);
    let i = rng.below(slots[s].len());
    let a = if rng.chance(1, 2) {
        slots[s].remove(i)
    } else {
        slots[s][i].clone()
    };
    let d = rng.below(slots.len());
    let at = rng.below(slots[d].len() + 1);
    slots[d].insert(at, a);
    true
}
fn op_attr_insert(c: &mut Cand, rng: &mut Rng, _: &Pool) -> bool {
    let Some(a) = attr_from(rng.pick_str(HELPER_ATTRS)) else {
        return false;
    };
    let mut slots = attr_slots(&mut c.item);
    if slots.is_empty() {
        return false;
    }
    let d = rng.below(slots.len());
    let at = rng.below(slots[d].len() + 1);
    slots[d].insert(at, a);
    true
}
fn op_key_expr(c: &mut Cand, rng: &mut Rng, _: &Pool) -> bool {
    // `#[<cmp>(key = <expr>)]` / `by = <expr>` (optionally with more arguments) on a field,
    // variant or the type
    let cmp = rng.pick_str(&["ord", "partial_ord", "eq", "partial_eq", "hash"]);
    let arg = if rng.chance(3, 4) { "key" } else { "by" };
    let expr = if rng.chance(1, 4) {
        rng.pick_str(VALUE_EXPRS)
    } else {
        rng.pick_str(KEY_EXPRS)
    };
    let extra = match rng.weighted(&[10, 1, 1, 1, 1]) {
        0 => String::new(),
        1 => ", bound(T)".to_string(),
        2 => ", reverse".to_string(),
        3 => format!(", by = {}", rng.pick_str(KEY_EXPRS)),
        _ => ", ignore".to_string(),
    };
    let Some(a) = attr_from(&format!("#[{cmp}({arg} = {expr}{extra})]")) else {
        return false;
    };
    let mut slots = attr_slots(&mut c.item);
    if slots.is_empty() {
        return false;
    }
    // prefer field slots (everything after the first)
    let d = if slots.len() > 1 && !rng.chance(1, 6) {
        1 + rng.below(slots.len() - 1)
    } else {
        rng.below(slots.len())
    };
    // replace an existing attribute of the same name half of the time
    if let Some(pos) = slots[d].iter().position(|x| x.path().is_ident(cmp)) {
        if rng.chance(1, 2) {
            slots[d][pos] = a;
            return true;
        }
    }
    let at = rng.below(slots[d].len() + 1);
    slots[d].insert(at, a);
    true
}
fn op_default_expr(c: &mut Cand, rng: &mut Rng, _: &Pool) -> bool {
    // `#[default(<expr>)]` (optionally with a bound) on the type, a variant or a field
    let expr = rng.pick_str(VALUE_EXPRS);
    let extra = match rng.weighted(&[8, 1, 1, 1]) {
        0 => "",
        1 => ", bound(T)",
        2 => ", bound()",
        _ => ", bound(..)",
    };
    let Some(a) = attr_from(&format!("#[default({expr}{extra})]")) else {
        return false;
    };
    let mut slots = attr_slots(&mut c.item);
    if slots.is_empty() {
        return false;
    }
    // the type-level slot half of the time: that is where the value becomes a function body
    let d = if rng.chance(1, 2) { 0 } else { rng.below(slots.len()) };
    if let Some(pos) = slots[d].iter().position(|x| x.path().is_ident("default")) {
        slots[d][pos] = a;
        return true;
    }
    let at = rng.below(slots[d].len() + 1);
    slots[d].insert(at, a);
    true
}
fn op_attr_args_edit(c: &mut Cand, rng: &mut Rng, _: &Pool) -> bool {
    // the macro's own argument list, or one attribute inside the item
    let n_edits = rng.weighted(&[0, 6, 3, 1]);
    if c.mode == Mode::Attr && rng.chance(1, 2) {
        for _ in 0..n_edits {
            c.attr = edit_tokens(&c.attr, rng);
        }
        return true;
    }
    let mut slots = attr_slots(&mut c.item);
    let mut cands: Vec<(usize, usize)> = Vec::new();
    for (si, s) in slots.iter().enumerate() {
        for (ai, a) in s.iter().enumerate() {
            if matches!(a.meta, syn::Meta::List(_)) {
                cands.push((si, ai));
            }
        }
    }
    if cands.is_empty() {
        return false;
    }
    let (si, ai) = *rng.pick(&cands);
    if let syn::Meta::List(l) = &mut slots[si][ai].meta {
        for _ in 0..n_edits {
            l.tokens = edit_tokens(&l.tokens, rng);
        }
        return true;
    }
    false
}
fn op_trait_list(c: &mut Cand, rng: &mut Rng, _: &Pool) -> bool {
    let list = trait_list(rng);
    let Some(ts) = lex(&list) else {
        return false;
    };
    if c.mode == Mode::Attr && rng.chance(2, 3) {
        c.attr = ts;
        return true;
    }
    // replace (or add) a type-level #[derive_ex(..)]
    let Some(attrs) = item_attrs_mut(&mut c.item) else {
        return false;
    };
    let Some(a) = attr_from(&format!("#[derive_ex({list})]")) else {
        return false;
    };
    if let Some(pos) = attrs.iter().position(|a| a.path().is_ident("derive_ex")) {
        if rng.chance(2, 3) {
            attrs[pos] = a;
            return true;
        }
    }
    let at = rng.below(attrs.len() + 1);
    attrs.insert(at, a);
    true
}
fn op_field_delete(c: &mut Cand, rng: &mut Rng, _: &Pool) -> bool {
    let mut lists = fields_lists(&mut c.item);
    let cand: Vec<usize> = (0..lists.len()).filter(|i| lists[*i].len() > 0).collect();
    if cand.is_empty() {
        return false;
    }
    let li = *rng.pick(&cand);
    let Some(p) = fields_vec(lists[li]) else {
        return false;
    };
    let i = rng.below(p.len());
    punct_remove(p, i);
    true
}
fn op_field_duplicate(c: &mut Cand, rng: &mut Rng, _: &Pool) -> bool {
    let mut lists = fields_lists(&mut c.item);
    let cand: Vec<usize> = (0..lists.len()).filter(|i| lists[*i].len() > 0).collect();
    if cand.is_empty() {
        return false;
    }
    let li = *rng.pick(&cand);
    let Some(p) = fields_vec(lists[li]) else {
        return false;
    };
    let mut v = punct_vec(p);
    let i = rng.below(v.len());
    let times = if rng.chance(1, 12) { rng.range(8, 40) } else { 1 };
    for k in 0..times {
        let mut f = v[i].clone();
        if let Some(id) = &f.ident {
            if !rng.chance(1, 6) {
                f.ident = Some(suffixed(id, "_", v.len() + k));
            }
        }
        v.insert(i + 1, f);
    }
    punct_set(p, v);
    true
}
fn op_field_swap(c: &mut Cand, rng: &mut Rng, _: &Pool) -> bool {
    let mut lists = fields_lists(&mut c.item);
    let cand: Vec<usize> = (0..lists.len()).filter(|i| lists[*i].len() >= 2).collect();
    if cand.is_empty() {
        return false;
    }
    let li = *rng.pick(&cand);
    let Some(p) = fields_vec(lists[li]) else {
        return false;
    };
    let mut v = punct_vec(p);
    let i = rng.below(v.len() - 1);
    // swap types/attrs but keep names in place half of the time
    if rng.chance(1, 2) && v[i].ident.is_some() {
        let (a, b) = (v[i].ident.clone(), v[i + 1].ident.clone());
        v.swap(i, i + 1);
        v[i].ident = a;
        v[i + 1].ident = b;
    } else {
        v.swap(i, i + 1);
    }
    punct_set(p, v);
    true
}
fn new_field(named: bool, idx: usize, rng: &mut Rng) -> Option<Field> {
    let ty: Type = ps(rng.pick_str(TYPES))?;
    let mut attrs = Vec::new();
    if rng.chance(1, 3) {
        if let Some(a) = attr_from(rng.pick_str(HELPER_ATTRS)) {
            attrs.push(a);
        }
    }
    let ident = if named {
        Some(if rng.chance(1, 3) {
            mk_ident(rng.pick_str(IDENTS))?
        } else {
            Ident::new(&format!("f{idx}"), Span::call_site())
        })
    } else {
        None
    };
    let vis = if rng.chance(1, 6) {
        ps::<syn::Visibility>(rng.pick_str(&[
"pub", "pub(crate)", "pub(in self)"]))?
    } else {
        syn::Visibility::Inherited
    };
    Some(Field {
        attrs,
        vis,
        mutability: syn::FieldMutability::None,
        colon_token: if named { Some(Default::default()) } else { None },
        ident,
        ty,
    })
}
fn op_field_add(c: &mut Cand, rng: &mut Rng, _: &Pool) -> bool {
    let mut lists = fields_lists(&mut c.item);
    if lists.is_empty() {
        return false;
    }
    let li = rng.below(lists.len());
    let fields = &mut *lists[li];
    match fields {
        Fields::Unit => {
            let named = rng.chance(1, 2);
            let Some(f) = new_field(named, 0, rng) else {
                return false;
            };
            *fields = if named {
                Fields::Named(syn::FieldsNamed {
                    brace_token: Default::default(),
                    named: [f].into_iter().collect(),
                })
            } else {
                Fields::Unnamed(syn::FieldsUnnamed {
                    paren_token: Default::default(),
                    unnamed: [f].into_iter().collect(),
                })
            };
            true
        }
        Fields::Named(n) => {
            let Some(f) = new_field(true, n.named.len(), rng) else {
                return false;
            };
            let mut v = punct_vec(&n.named);
            let at = rng.below(v.len() + 1);
            v.insert(at, f);
            punct_set(&mut n.named, v);
            true
        }
        Fields::Unnamed(u) => {
            let Some(f) = new_field(false, u.unnamed.len(), rng) else {
                return false;
            };
            let mut v = punct_vec(&u.unnamed);
            let at = rng.below(v.len() + 1);
            v.insert(at, f);
            punct_set(&mut u.unnamed, v);
            true
        }
    }
}
fn op_field_type(c: &mut Cand, rng: &mut Rng, _: &Pool) -> bool {
    let mut lists = fields_lists(&mut c.item);
    let cand: Vec<usize> = (0..lists.len()).filter(|i| lists[*i].len() > 0).collect();
    if cand.is_empty() {
        return false;
    }
    let li = *rng.pick(&cand);
    let n = lists[li].len();
    let fi = rng.below(n);
    let f = lists[li].iter_mut().nth(fi).unwrap();
    if rng.chance(1, 2) {
        let Some(ty) = ps::<Type>(rng.pick_str(TYPES)) else {
            return false;
        };
        f.ty = ty;
    } else {
        let w = rng.pick_str(TYPE_WRAPS);
        let inner = f.ty.to_token_stream().to_string();
        let Some(ty) = ps::<Type>(&w.replace("__", &inner)) else {
            return false;
        };
        f.ty = ty;
    }
    true
}
fn op_type_from_macro(c: &mut Cand, rng: &mut Rng, _: &Pool) -> bool {
    // what `macro_rules! m { ($t:ty) => { .. struct X($t); } }` hands to the macro: the type
    // inside a None-delimited group
    fn group(ty: &Type) -> Type {
        Type::Group(syn::TypeGroup {
            group_token: Default::default(),
            elem: Box::new(ty.clone()),
        })
    }
    match &mut c.item {
        Item::Impl(i) => {
            match rng.below(3) {
                0 => {
                    let g = group(&i.self_ty);
                    *i.self_ty = g;
                    true
                }
                1 => {
                    for it in i.items.iter_mut() {
                        if let syn::ImplItem::Type(t) = it {
                            t.ty = group(&t.ty);
                            return true;
                        }
                    }
                    false
                }
                _ => {
                    let Some((_, path, _)) = &mut i.trait_ else {
                        return false;
                    };
                    let Some(seg) = path.segments.last_mut() else {
                        return false;
                    };
                    if let syn::PathArguments::AngleBracketed(a) = &mut seg.arguments {
                        for arg in a.args.iter_mut() {
                            if let syn::GenericArgument::Type(t) = arg {
                                *t = group(t);
                                return true;
                            }
                        }
                    }
                    false
                }
            }
        }
        _ => {
            let mut lists = fields_lists(&mut c.item);
            let cand: Vec<usize> = (0..lists.len()).filter(|i| lists[*i].len() > 0).collect();
            if cand.is_empty() {
                return false;
            }
            let li = *rng.pick(&cand);
            let n = lists[li].len();
            let fi = rng.below(n);
            let f = lists[li].iter_mut().nth(fi).unwrap();
            if matches!(f.ty, Type::Group(_)) {
                return false;
            }
            f.ty = group(&f.ty);
            true
        }
    }
}
fn op_expr_from_macro(c: &mut Cand, rng: &mut Rng, _: &Pool) -> bool {
    // what `macro_rules! m { ($e:expr) => { .. #[default($e)] .. } }` hands over: the expression
    // inside a None-delimited group. Wraps the value of one `name = value` argument, or the
    // first positional argument, of a helper attribute.
    let mut slots = attr_slots(&mut c.item);
    let mut cands: Vec<(usize, usize)> = Vec::new();
    for (si, s) in slots.iter().enumerate() {
        for (ai, a) in s.iter().enumerate() {
            let helper = ["default", "ord", "partial_ord", "eq", "partial_eq", "hash"].iter().any(|n| a.path().is_ident(n));
            if helper && matches!(a.meta, syn::Meta::List(_)) {
                cands.push((si, ai));
            }
        }
    }
    if cands.is_empty() {
        return false;
    }
    let (si, ai) = *rng.pick(&cands);
    let syn::Meta::List(l) = &mut slots[si][ai].meta else {
        return false;
    };
    let v = tts(&l.tokens);
    if v.is_empty() {
        return false;
    }
    // start after an `=` if there is one, else at the beginning; end at the next top-level comma
    let eqs: Vec<usize> = v.iter().enumerate().filter(|(_, t)| matches!(t, TokenTree::Punct(p) if p.as_char() == '=' && p.spacing() == Spacing::Alone)).map(|(i, _)| i).collect();
    let start = if eqs.is_empty() { 0 } else { *rng.pick(&eqs) + 1 };
    let mut end = start;
    while end < v.len() && !matches!(&v[end], TokenTree::Punct(p) if p.as_char() == ',') {
        end += 1;
    }
    if end <= start {
        return false;
    }
    if end - start == 1 && matches!(&v[start], TokenTree::Group(g) if g.delimiter() == Delimiter::None) {
        return false;
    }
    let inner: TokenStream = v[start..end].iter().cloned().collect();
    let mut out: Vec<TokenTree> = v[..start].to_vec();
    out.push(TokenTree::Group(Group::new(Delimiter::None, inner)));
    out.extend(v[end..].iter().cloned());
    l.tokens = out.into_iter().collect();
    true
}
fn op_fields_kind(c: &mut Cand, rng: &mut Rng, _: &Pool) -> bool {
    let is_struct = matches!(c.item, Item::Struct(_));
    let mut lists = fields_lists(&mut c.item);
    if lists.is_empty() {
        return false;
    }
    let li = rng.below(lists.len());
    let fields = &mut *lists[li];
    let old: Vec<Field> = fields.iter().cloned().collect();
    let target = rng.below(3);
    *fields = match target {
        0 => Fields::Unit,
        1 => Fields::Unnamed(syn::FieldsUnnamed {
            paren_token: Default::default(),
            unnamed: old
                .into_iter()
                .map(|mut f| {
                    f.ident = None;
                    f.colon_token = None;
                    f
                })
                .collect(),
        }),
        _ => Fields::Named(syn::FieldsNamed {
            brace_token: Default::default(),
            named: old
                .into_iter()
                .enumerate()
                .map(|(i, mut f)| {
                    if f.ident.is_none() {
                        f.ident = Some(Ident::new(&format!("f{i}"), Span::call_site()));
                        f.colon_token = Some(Default::default());
                    }
                    f
                })
                .collect(),
        }),
    };
    if is_struct {
        if let Item::Struct(s) = &mut c.item {
            s.semi_token = match s.fields {
                Fields::Named(_) => None,
                _ => Some(Default::default()),
            };
            // a where clause must come before the `;` of a tuple struct and before the `{` of a
            // record struct; syn prints it in the right place for both
        }
    }
    true
}
fn op_variant_delete(c: &mut Cand, rng: &mut Rng, _: &Pool) -> bool {
    let Item::Enum(e) = &mut c.item else {
        return false;
    };
    if e.variants.is_empty() {
        return false;
    }
    let i = rng.below(e.variants.len());
    punct_remove(&mut e.variants, i);
    true
}
fn op_variant_duplicate(c: &mut Cand, rng: &mut Rng, _: &Pool) -> bool {
    let Item::Enum(e) = &mut c.item else {
        return false;
    };
    if e.variants.is_empty() {
        return false;
    }
    let mut v = punct_vec(&e.variants);
    let i = rng.below(v.len());
    let times = if rng.chance(1, 12) { rng.range(8, 40) } else { 1 };
    for k in 0..times {
        let mut var = v[i].clone();
        if !rng.chance(1, 6) {
            var.ident = suffixed(&var.ident, "", v.len() + k);
        }
        v.insert(i + 1, var);
    }
    punct_set(&mut e.variants, v);
    true
}
fn op_variant_swap(c: &mut Cand, rng: &mut Rng, _: &Pool) -> bool {
    let Item::Enum(e) = &mut c.item else {
        return false;
    };
    if e.variants.len() < 2 {
        return false;
    }
    let mut v = punct_vec(&e.variants);
    let i = rng.below(v.len() - 1);
    v.swap(i, i + 1);
    punct_set(&mut e.variants, v);
    true
}
fn op_variant_add(c: &mut Cand, rng: &mut Rng, _: &Pool) -> bool {
    let Item::Enum(e) = &mut c.item else {
        return false;
    };
    let src = rng.pick_str(&[
"enum E { V }",
        "enum E { V(u8) }",
        "enum E { V { a: T } }",
        "enum E { #[default] V }",
        "enum E { V = 3 }",
        "enum E { V() }",
        "enum E { V {} }",
        "enum E { #[default] V(T, #[default(1)] u8) }",
        "enum E { r#type }",
        "enum E { #[ord(ignore)] V(u8) }",
        "enum E { #[derive_ex(Clone(bound(T)))] V(T) }",
        "enum E { #[debug(bound(T))] V { #[debug(ignore)] a: T, b: u8 } }",
        "enum E { V(#[eq(key = $.len())] String, #[ord(reverse)] T) }",
        "enum E { Self_ }",
    ]);
    let Some(Item::Enum(t)) = ps::<Item>(src) else {
        return false;
    };
    let mut var: Variant = t.variants.into_iter().next().unwrap();
    if !rng.chance(1, 4) {
        var.ident = Ident::new(&format!("V{}", e.variants.len()), Span::call_site());
    }
    let mut v = punct_vec(&e.variants);
    let at = rng.below(v.len() + 1);
    v.insert(at, var);
    punct_set(&mut e.variants, v);
    true
}
fn op_variant_discriminant(c: &mut Cand, rng: &mut Rng, _: &Pool) -> bool {
    let Item::Enum(e) = &mut c.item else {
        return false;
    };
    if e.variants.is_empty() {
        return false;
    }
    let i = rng.below(e.variants.len());
    let var = e.variants.iter_mut().nth(i).unwrap();
    if var.discriminant.is_some() {
        var.discriminant = None;
    } else {
        let Some(ex) = ps::<syn::Expr>(rng.pick_str(&[
"3", "-1", "1 << 2", "C", "{ 1 + 1 }"])) else {
            return false;
        };
        var.discriminant = Some((Default::default(), ex));
    }
    true
}
fn op_generic_delete(c: &mut Cand, rng: &mut Rng, _: &Pool) -> bool {
    let Some(g) = generics_of(&mut c.item) else {
        return false;
    };
    if g.params.is_empty() {
        return false;
    }
    let i = rng.below(g.params.len());
    punct_remove(&mut g.params, i);
    if g.params.is_empty() {
        g.lt_token = None;
        g.gt_token = None;
    }
    true
}
fn op_generic_add(c: &mut Cand, rng: &mut Rng, _: &Pool) -> bool {
    let Some(g) = generics_of(&mut c.item) else {
        return false;
    };
    let Some(p) = ps::<GenericParam>(rng.pick_str(GENERIC_PARAMS)) else {
        return false;
    };
    let mut v = punct_vec(&g.params);
    // lifetimes first, as the grammar used to require; sometimes anywhere
    let at = if matches!(p, GenericParam::Lifetime(_)) && !rng.chance(1, 5) {
        0
    } else {
        rng.below(v.len() + 1)
    };
    v.insert(at, p);
    punct_set(&mut g.params, v);
    g.lt_token = Some(Default::default());
    g.gt_token = Some(Default::default());
    true
}
fn op_generic_swap(c: &mut Cand, rng: &mut Rng, _: &Pool) -> bool {
    let Some(g) = generics_of(&mut c.item) else {
        return false;
    };
    if g.params.len() < 2 {
        return false;
    }
    let mut v = punct_vec(&g.params);
    let i = rng.below(v.len() - 1);
    v.swap(i, i + 1);
    punct_set(&mut g.params, v);
    true
}
fn op_generic_duplicate(c: &mut Cand, rng: &mut Rng, _: &Pool) -> bool {
    let Some(g) = generics_of(&mut c.item) else {
        return false;
    };
    if g.params.is_empty() {
        return false;
    }
    let mut v = punct_vec(&g.params);
    let i = rng.below(v.len());
    let mut p = v[i].clone();
    if !rng.chance(1, 5) {
        match &mut p {
            GenericParam::Type(t) => {
                t.ident = suffixed(&t.ident, "", v.len())
            }
            GenericParam::Const(t) => {
                t.ident = suffixed(&t.ident, "", v.len())
            }
            GenericParam::Lifetime(l) => {
                l.lifetime.ident = suffixed(&l.lifetime.ident, "", v.len())
            }
        }
    }
    v.insert(i + 1, p);
    punct_set(&mut g.params, v);
    true
}
fn op_where(c: &mut Cand, rng: &mut Rng, _: &Pool) -> bool {
    let Some(g) = generics_of(&mut c.item) else {
        return false;
    };
    match rng.below(4) {
        0 => {
            if g.where_clause.is_none() {
                return false;
            }
            g.where_clause = None;
            true
        }
        1 => {
            let Some(w) = &mut g.where_clause else {
                return false;
            };
            if w.predicates.is_empty() {
                return false;
            }
            let i = rng.below(w.predicates.len());
            punct_remove(&mut w.predicates, i);
            true
        }
        _ => {
            let Some(p) = ps::<syn::WherePredicate>(rng.pick_str(WHERE_PREDS)) else {
                return false;
            };
            let w = g.make_where_clause();
            let mut v = punct_vec(&w.predicates);
            let at = rng.below(v.len() + 1);
            v.insert(at, p);
            punct_set(&mut w.predicates, v);
            true
        }
    }
}
fn op_rename(c: &mut Cand, rng: &mut Rng, _: &Pool) -> bool {
    let Some(new) = mk_ident(rng.pick_str(IDENTS)) else {
        return false;
    };
    match rng.below(4) {
        0 => match &mut c.item {
            Item::Struct(s) => {
                s.ident = new;
                true
            }
            Item::Enum(e) => {
                e.ident = new;
                true
            }
            Item::Union(u) => {
                u.ident = new;
                true
            }
            _ => false,
        },
        1 => {
            let mut lists = fields_lists(&mut c.item);
            let cand: Vec<usize> = (0..lists.len())
                .filter(|i| matches!(&*lists[*i], Fields::Named(n) if !n.named.is_empty()))
                .collect();
            if cand.is_empty() {
                return false;
            }
            let li = *rng.pick(&cand);
            let n = lists[li].len();
            let fi = rng.below(n);
            lists[li].iter_mut().nth(fi).unwrap().ident = Some(new);
            true
        }
        2 => {
            let Item::Enum(e) = &mut c.item else {
                return false;
            };
            if e.variants.is_empty() {
                return false;
            }
            let i = rng.below(e.variants.len());
            e.variants.iter_mut().nth(i).unwrap().ident = new;
            true
        }
        _ => {
            // rename a generic parameter consistently through the whole item (token-level)
            let Some(g) = generics_of(&mut c.item) else {
                return false;
            };
            let names: Vec<Ident> = g
                .params
                .iter()
                .filter_map(|p| match p {
                    GenericParam::Type(t) => Some(t.ident.clone()),
                    GenericParam::Const(t) => Some(t.ident.clone()),
                    _ => None,
                })
                .collect();
            if names.is_empty() {
                return false;
            }
            let old = rng.pick(&names).clone();
            let everywhere = !rng.chance(1, 4);
            if everywhere {
                let ts = rename_ident(c.item.to_token_stream(), &old, &new);
                match syn::parse2::<Item>(ts) {
                    Ok(i) => {
                        c.item = i;
                        c.attr = rename_ident(c.attr.clone(), &old, &new);
                        true
                    }
                    Err(_) => false,
                }
            } else {
                let g = generics_of(&mut c.item).unwrap();
                for p in g.params.iter_mut() {
                    match p {
                        GenericParam::Type(t) if t.ident == old => t.ident = new.clone(),
                        GenericParam::Const(t) if t.ident == old => t.ident = new.clone(),
                        _ => {}
                    }
                }
                true
            }
        }
    }
}
fn rename_ident(ts: TokenStream, old: &Ident, new: &Ident) -> TokenStream {
    ts.into_iter()
        .map(|tt| match tt {
            TokenTree::Ident(i) if i == *old => TokenTree::Ident(new.clone()),
            TokenTree::Group(g) => {
                TokenTree::Group(Group::new(g.delimiter(), rename_ident(g.stream(), old, new)))
            }
            t => t,
        })
        .collect()
}
fn op_splice(c: &mut Cand, rng: &mut Rng, pool: &Pool) -> bool {
    let Some(mut other) = pool.any(rng) else {
        return false;
    };
    match rng.below(5) {
        0 => {
            // attributes from the other item
            let mut theirs: Vec<Attribute> = Vec::new();
            for s in attr_slots(&mut other.item) {
                theirs.extend(s.iter().cloned());
            }
            if theirs.is_empty() {
                return false;
            }
            let a = rng.pick(&theirs).clone();
            let mut slots = attr_slots(&mut c.item);
            if slots.is_empty() {
                return false;
            }
            let d = rng.below(slots.len());
            let at = rng.below(slots[d].len() + 1);
            slots[d].insert(at, a);
            true
        }
        1 => {
            // a field from the other item
            let mut theirs: Vec<Field> = Vec::new();
            for l in fields_lists(&mut other.item) {
                theirs.extend(l.iter().cloned());
            }
            if theirs.is_empty() {
                return false;
            }
            let mut f = rng.pick(&theirs).clone();
            let mut lists = fields_lists(&mut c.item);
            if lists.is_empty() {
                return false;
            }
            let li = rng.below(lists.len());
            match &mut *lists[li] {
                Fields::Unit => false,
                Fields::Named(n) => {
                    if f.ident.is_none() {
                        f.ident = Some(Ident::new(&format!("s{}", n.named.len()), Span::call_site()));
                        f.colon_token = Some(Default::default());
                    }
                    let mut v = punct_vec(&n.named);
                    let at = rng.below(v.len() + 1);
                    v.insert(at, f);
                    punct_set(&mut n.named, v);
                    true
                }
                Fields::Unnamed(u) => {
                    f.ident = None;
                    f.colon_token = None;
                    let mut v = punct_vec(&u.unnamed);
                    let at = rng.below(v.len() + 1);
                    v.insert(at, f);
                    punct_set(&mut u.unnamed, v);
                    true
                }
            }
        }
        2 => {
            // a variant from the other item
            let (Item::Enum(e), Item::Enum(o)) = (&mut c.item, &other.item) else {
                return false;
            };
            if o.variants.is_empty() {
                return false;
            }
            let var = o.variants.iter().nth(rng.below(o.variants.len())).unwrap().clone();
            let mut v = punct_vec(&e.variants);
            let at = rng.below(v.len() + 1);
            v.insert(at, var);
            punct_set(&mut e.variants, v);
            true
        }
        3 => {
            // generics (and where clause) of the other item
            let Some(og) = generics_of(&mut other.item).map(|g| g.clone()) else {
                return false;
            };
            let Some(g) = generics_of(&mut c.item) else {
                return false;
            };
            *g = og;
            true
        }
        _ => {
            // the other item's argument list / the other item under this argument list
            if c.mode == Mode::Attr && other.mode == Mode::Attr {
                if rng.chance(1, 2) {
                    c.attr = other.attr;
                } else {
                    c.item = other.item;
                }
                true
            } else {
                false
            }
        }
    }
}
fn op_item_kind(c: &mut Cand, rng: &mut Rng, _: &Pool) -> bool {
    let Some(mut alt) = ps::<Item>(rng.pick_str(ALT_ITEMS)) else {
        return false;
    };
    // keep the original attributes
    let old_attrs: Vec<Attribute> = item_attrs_mut(&mut c.item).map(|a| a.clone()).unwrap_or_default();
    if let Some(a) = item_attrs_mut(&mut alt) {
        if rng.chance(3, 4) {
            *a = old_attrs;
        }
    }
    c.item = alt;
    true
}
fn op_struct_enum_flip(c: &mut Cand, rng: &mut Rng, _: &Pool) -> bool {
    match &c.item {
        Item::Struct(s) => {
            // struct -> one- or two-variant enum with the same fields
            let mut variants: Punctuated<Variant, Token![,]> = Punctuated::new();
            variants.push(Variant {
                attrs: vec![],
                ident: Ident::new("A", Span::call_site()),
                fields: s.fields.clone(),
                discriminant: None,
            });
            if rng.chance(1, 2) {
                variants.push(Variant {
                    attrs: vec![],
                    ident: Ident::new("B", Span::call_site()),
                    fields: Fields::Unit,
                    discriminant: None,
                });
            }
            c.item = Item::Enum(syn::ItemEnum {
                attrs: s.attrs.clone(),
                vis: s.vis.clone(),
                enum_token: Default::default(),
                ident: s.ident.clone(),
                generics: s.generics.clone(),
                brace_token: Default::default(),
                variants,
            });
            true
        }
        Item::Enum(e) => {
            let fields = e
                .variants
                .iter()
                .next()
                .map(|v| v.fields.clone())
                .unwrap_or(Fields::Unit);
            let semi = !matches!(fields, Fields::Named(_));
            c.item = Item::Struct(syn::ItemStruct {
                attrs: e.attrs.clone(),
                vis: e.vis.clone(),
                struct_token: Default::default(),
                ident: e.ident.clone(),
                generics: e.generics.clone(),
                fields,
                semi_token: if semi { Some(Default::default()) } else { None },
            });
            true
        }
        _ => false,
    }
}
fn op_mode_flip(c: &mut Cand, _rng: &mut Rng, _: &Pool) -> bool {
    flip_mode(c)
}
/// The same derivation through the other entry point.
pub fn flip_mode(c: &mut Cand) -> bool {
    match c.mode {
        Mode::Attr => {
            if !matches!(c.item, Item::Struct(_) | Item::Enum(_) | Item::Union(_)) {
                return false;
            }
            let args = c.attr.clone();
            let a: Attribute = syn::parse_quote!(#[derive_ex(#args)]);
            let Some(attrs) = item_attrs_mut(&mut c.item) else {
                return false;
            };
            attrs.insert(0, a);
            c.attr = TokenStream::new();
            c.mode = Mode::Derive;
            true
        }
        Mode::Derive => {
            let Some(attrs) = item_attrs_mut(&mut c.item) else {
                return false;
            };
            let Some(pos) = attrs.iter().position(|a| a.path().is_ident("derive_ex")) else {
                return false;
            };
            let a = attrs.remove(pos);
            c.attr = match a.meta {
                syn::Meta::List(l) => l.tokens,
                _ => TokenStream::new(),
            };
            c.mode = Mode::Attr;
            true
        }
    }
}
fn op_split_merge(c: &mut Cand, rng: &mut Rng, _: &Pool) -> bool {
    // split the macro's list into a second #[derive_ex(..)] on the item, or merge one back
    if c.mode != Mode::Attr {
        return false;
    }
    let v = tts(&c.attr);
    let commas: Vec<usize> = v
        .iter()
        .enumerate()
        .filter(|(_, t)| matches!(t, TokenTree::Punct(p) if p.as_char() == ','))
        .map(|(i, _)| i)
        .collect();
    if !commas.is_empty() && rng.chance(2, 3) {
        let at = *rng.pick(&commas);
        let head: TokenStream = v[..at].iter().cloned().collect();
        let tail: TokenStream = v[at + 1..].iter().cloned().collect();
        let a: Attribute = syn::parse_quote!(#[derive_ex(#tail)]);
        let Some(attrs) = item_attrs_mut(&mut c.item) else {
            return false;
        };
        attrs.insert(0, a);
        c.attr = head;
        true
    } else {
        let Some(attrs) = item_attrs_mut(&mut c.item) else {
            return false;
        };
        let Some(pos) = attrs.iter().position(|a| a.path().is_ident("derive_ex")) else {
            return false;
        };
        let a = attrs.remove(pos);
        if let syn::Meta::List(l) = a.meta {
            let mut t = c.attr.clone();
            if !t.is_empty() {
                t.extend(quote!(,));
            }
            t.extend(l.tokens);
            c.attr = t;
            true
        } else {
            false
        }
    }
}
fn op_impl_edit(c: &mut Cand, rng: &mut Rng, _: &Pool) -> bool {
    let Item::Impl(i) = &mut c.item else {
        return false;
    };
    match rng.below(9) {
        0 => {
            // operator name
            let Some((_, path, _)) = &mut i.trait_ else {
                return false;
            };
            let Some(seg) = path.segments.last_mut() else {
                return false;
            };
            let name = if rng.chance(1, 6) {
                rng.pick_str(UNKNOWN_TRAITS)
            } else {
                rng.pick_str(&TRAITS[..22])
            };
            let Some(id) = mk_ident(name) else {
                return false;
            };
            seg.ident = id;
            true
        }
        1 => {
            // generic arguments of the trait
            let Some((_, path, _)) = &mut i.trait_ else {
                return false;
            };
            let Some(seg) = path.segments.last_mut() else {
                return false;
            };
            let src = rng.pick_str(&[
"X", "X<>", "X<u8>", "X<u8, u8>", "X<'a>", "X<&X>", "X<Self>", "X<{ 1 }>",
                "X<&'a Self>", "X<&mut Self>", "X<dyn A + B>", "X<Output = u8>", "X<(Self, Self)>",
                "X<&&Self>", "X(u8) -> u8", "X<[Self; 2]>", "X<T>", "X<*const Self>", "X<*mut Self>",
                "X<&dyn Fn() -> Self>", "X<&fn() -> Self>", "X<Box<Self>>", "X<&'a mut [Self]>",
            ]);
            let Some(p) = ps::<syn::Path>(src) else {
                return false;
            };
            seg.arguments = p.segments.into_iter().next().unwrap().arguments;
            true
        }
        2 => {
            let Some(ty) = ps::<Type>(rng.pick_str(&[
"X", "&X", "&'a X", "&mut X", "dyn A + B", "(X, X)", "[X]", "X<T>", "&X<T>",
                "&&X", "Self", "T", "Box<X>", "&dyn A", "fn(X)", "!", "(dyn A + B)", "*const X",
                "impl Tr", "&(dyn A + B)", "r#type", "<X as Tr>::Assoc", "Box<Self>", "(Self, u8)",
                "[Self; 2]", "W<Self>", "&Self", "fn(Self) -> Self", "<Self as Tr>::Assoc",
                "dyn Tr<Self>", "W<W<Self>>", "&'a mut [Self]", "W<{ Self::N }>",
            ])) else {
                return false;
            };
            *i.self_ty = ty;
            true
        }
        3 => {
            // Output: drop / rename / change
            let pos = i.items.iter().position(|it| matches!(it, syn::ImplItem::Type(_)));
            match pos {
                Some(p) => match rng.below(3) {
                    0 => {
                        i.items.remove(p);
                    }
                    1 => {
                        if let syn::ImplItem::Type(t) = &mut i.items[p] {
                            t.ident = Ident::new("Out", Span::call_site());
                        }
                    }
                    _ => {
                        if let syn::ImplItem::Type(t) = &mut i.items[p] {
                            let Some(ty) = ps::<Type>(rng.pick_str(&[
"Self", "&'a Self", "Option<Self>", "u8", "dyn A + B", "(Self, Self)",
                                "<Self as Tr>::Assoc", "[Self; 2]", "impl Tr", "_",
                            ])) else {
                                return false;
                            };
                            t.ty = ty;
                        }
                    }
                },
                None => {
                    let Some(it) = ps::<syn::ImplItem>("type Output = Self;") else {
                        return false;
                    };
                    i.items.insert(0, it);
                }
            }
            true
        }
        4 => {
            match &mut i.trait_ {
                Some((bang, _, _)) => {
                    *bang = if bang.is_some() { None } else { Some(Default::default()) };
                }
                None => return false,
            }
            true
        }
        5 => {
            i.trait_ = None;
            true
        }
        6 => {
            i.unsafety = if i.unsafety.is_some() { None } else { Some(Default::default()) };
            true
        }
        7 => {
            if i.items.is_empty() {
                return false;
            }
            let k = rng.below(i.items.len());
            i.items.remove(k);
            true
        }
        _ => {
            // leading `::core::ops::` path or not
            let Some((_, path, _)) = &mut i.trait_ else {
                return false;
            };
            let Some(last) = path.segments.last().cloned() else {
                return false;
            };
            let Some(mut p) = ps::<syn::Path>(rng.pick_str(&[
"::core::ops::X", "std::ops::X", "X", "ops::X", "self::X", "crate::X", "::X",
            ])) else {
                return false;
            };
            *p.segments.last_mut().unwrap() = last;
            *path = p;
            true
        }
    }
}
fn op_vis(c: &mut Cand, rng: &mut Rng, _: &Pool) -> bool {
    let Some(v) = ps::<syn::Visibility>(rng.pick_str(&[
"pub", "pub(crate)", "pub(super)", "pub(in crate::a)"]))
    else {
        return false;
    };
    match &mut c.item {
        Item::Struct(s) => s.vis = v,
        Item::Enum(e) => e.vis = v,
        _ => return false,
    }
    true
}

const OPS: &[(&str, Op, usize)] = &[
    ("attr-delete", op_attr_delete, 5),
    ("attr-duplicate", op_attr_duplicate, 4),
    ("attr-swap", op_attr_swap, 2),
    ("attr-move", op_attr_move, 5),
    ("attr-insert", op_attr_insert, 10),
    ("attr-args-edit", op_attr_args_edit, 14),
    ("key-expr", op_key_expr, 6),
    ("default-expr", op_default_expr, 5),
    ("trait-list", op_trait_list, 12),
    ("field-delete", op_field_delete, 4),
    ("field-duplicate", op_field_duplicate, 3),
    ("field-swap", op_field_swap, 2),
    ("field-add", op_field_add, 5),
    ("field-type", op_field_type, 7),
    ("fields-kind", op_fields_kind, 4),
    ("type-from-macro", op_type_from_macro, 3),
    ("expr-from-macro", op_expr_from_macro, 2),
    ("variant-delete", op_variant_delete, 3),
    ("variant-duplicate", op_variant_duplicate, 3),
    ("variant-swap", op_variant_swap, 2),
    ("variant-add", op_variant_add, 4),
    ("variant-discriminant", op_variant_discriminant, 1),
    ("generic-delete", op_generic_delete, 3),
    ("generic-add", op_generic_add, 5),
    ("generic-swap", op_generic_swap, 1),
    ("generic-duplicate", op_generic_duplicate, 1),
    ("where", op_where, 3),
    ("rename", op_rename, 8),
    ("splice", op_splice, 8),
    ("item-kind", op_item_kind, 3),
    ("struct-enum-flip", op_struct_enum_flip, 3),
    ("mode-flip", op_mode_flip, 4),
    ("split-merge", op_split_merge, 3),
    ("impl-edit", op_impl_edit, 6),
    ("vis", op_vis, 1),
];

pub fn op_names() -> Vec<&'static str> {
    OPS.iter().map(|o| o.0).chain(["compose"]).collect()
}

/// Applies one random operator; returns its name if it changed the candidate into another
/// valid request.
pub fn mutate_once(c: &mut Cand, rng: &mut Rng, pool: &Pool) -> Option<&'static str> {
    let weights: Vec<usize> = OPS
        .iter()
        .map(|o| {
            // impl-edit is the main operator for impl items
            if o.0 == "impl-edit" && matches!(c.item, Item::Impl(_)) {
                o.2 * 6
            } else {
                o.2
            }
        })
        .collect();
    for _ in 0..12 {
        let k = rng.weighted(&weights);
        let (name, op, _) = OPS[k];
        let mut trial = c.clone();
        if !op(&mut trial, rng, pool) {
            continue;
        }
        let before = c.to_request();
        let after = trial.to_request();
        if after == before || !is_valid_request(&after) {
            continue;
        }
        *c = trial;
        return Some(name);
    }
    None
}


// ---------------------------------------------------------------- composition from scratch

fn helper_family(h: &str) -> &'static str {
    let name: String = h
        .trim_start_matches("#[")
        .chars()
        .take_while(|c| c.is_alphanumeric() || *c == '_')
        .collect();
    match name.as_str() {
        "ord" | "partial_ord" | "eq" | "partial_eq" | "hash" => "cmp",
        "debug" => "debug",
        "default" => "default",
        "derive_ex" => "derive_ex",
        _ => "other",
    }
}

/// An item assembled from the dictionaries, one independent choice per dimension (kind, generics,
/// where clause, container / variant / field helpers biased to one family, field types, trait
/// list biased to the same family, entry point). Mutation from the corpus stays near the corpus;
/// this covers conjunctions of dictionary values that no corpus item is close to.
pub fn compose(rng: &mut Rng) -> Option<Cand> {
    let focus = *rng.pick(&["cmp", "cmp", "debug", "default", "derive_ex", "mixed"]);
    // "sane" compositions avoid the dictionary's deliberately malformed entries and misplaced
    // helpers, so that most of them expand to impls instead of stopping at the first error
    let sane = rng.chance(6, 10);
    let malformed = |h: &str| -> bool {
        !h.contains('(')
            || h.contains("()]")
            || h.contains(" = 1]")
            || h.contains("(1, 2)")
            || h.contains("ignore, reverse")
            || h.contains("ignore, transparent")
            || h.contains("hash(reverse")
            || h.contains("eq(reverse")
            || h.contains("::x")
    };
    let in_family: Vec<&str> = HELPER_ATTRS
        .iter()
        .copied()
        .filter(|h| helper_family(h) == focus && !(sane && malformed(h)))
        .collect();
    let container_ok: Vec<&str> = HELPER_ATTRS
        .iter()
        .copied()
        .filter(|h| {
            let f = helper_family(h);
            (f == focus || focus == "mixed") && f != "other" && !malformed(h)
                && (h.contains("bound(") && !h.contains("key") && !h.contains("by =") || h.contains("transparent"))
        })
        .collect();
    let pick_helper = |rng: &mut Rng, container: bool| -> String {
        if sane {
            let pool: &Vec<&str> = if container { &container_ok } else { &in_family };
            if pool.is_empty() {
                return String::new();
            }
            return rng.pick(pool).to_string();
        }
        if !in_family.is_empty() && rng.chance(7, 10) {
            rng.pick(&in_family).to_string()
        } else {
            rng.pick_str(HELPER_ATTRS).to_string()
        }
    };
    let helpers = |rng: &mut Rng, w: &[usize], container: bool| -> String {
        let n = rng.weighted(w);
        let n = if sane { n.min(1) } else { n };
        (0..n).map(|_| pick_helper(rng, container)).collect::<Vec<_>>().join(" ")
    };
    let ty = |rng: &mut Rng| -> String {
        if rng.chance(1, 2) {
            rng.pick_str(&TYPES[..10]).to_string()
        } else {
            rng.pick_str(TYPES).to_string()
        }
    };
    let fields = |rng: &mut Rng, allow_semicolon: bool| -> String {
        let kind = rng.weighted(&[1, 5, 5]);
        let n = rng.weighted(&[2, 8, 6, 4]);
        let mut fs = Vec::new();
        for i in 0..n {
            let h = helpers(rng, &[5, 4, 1], false);
            let t = ty(rng);
            fs.push(if kind == 2 { format!("{h} f{i}: {t}") } else { format!("{h} {t}") });
        }
        match kind {
            0 => String::new(),
            1 => format!("({}){}", fs.join(", "), if allow_semicolon { "" } else { "" }),
            _ => format!("{{ {} }}", fs.join(", ")),
        }
    };
    let n_gen = rng.weighted(&[3, 4, 3, 1]);
    let gens: Vec<&str> = (0..n_gen).map(|_| rng.pick_str(GENERIC_PARAMS)).collect();
    let generics = if gens.is_empty() {
        if rng.chance(1, 10) { "<>".to_string() } else { String::new() }
    } else {
        format!("<{}>", gens.join(", "))
    };
    let where_clause = if rng.chance(1, 4) {
        let n = rng.weighted(&[1, 4, 2]);
        let ps: Vec<&str> = (0..n).map(|_| rng.pick_str(WHERE_PREDS)).collect();
        format!("where {}{}", ps.join(", "), if n > 0 && rng.chance(1, 3) { "," } else { "" })
    } else {
        String::new()
    };
    let container = helpers(rng, &[5, 4, 1], true);
    let is_enum = rng.chance(1, 2);
    let body = if is_enum {
        let n = rng.weighted(&[1, 4, 6, 3]);
        let mut vs = Vec::new();
        let the_default = rng.below(n.max(1));
        for i in 0..n {
            let mut h = helpers(rng, &[6, 3, 1], true);
            if if sane { i == the_default } else { rng.chance(1, 4) } {
                h.push_str(" #[default]");
            }
            let f = fields(rng, false);
            let disc = if rng.chance(1, 25) { format!(" = {i}") } else { String::new() };
            vs.push(format!("{h} V{i}{f}{disc}"));
        }
        format!("enum X{generics} {where_clause} {{ {} }}", vs.join(", "))
    } else {
        let f = fields(rng, true);
        if f.starts_with('{') {
            format!("struct X{generics} {where_clause} {f}")
        } else {
            format!("struct X{generics}{f} {where_clause};")
        }
    };
    let family_traits: &[&str] = match focus {
        "cmp" => &["Ord", "PartialOrd", "Eq", "PartialEq", "Hash"],
        "debug" => &["Debug"],
        "default" => &["Default"],
        "derive_ex" => &["Clone", "Default", "Debug", "Copy"],
        _ => TRAITS,
    };
    let list = if !sane && rng.chance(1, 3) {
        trait_list(rng)
    } else {
        let mut parts: Vec<String> = Vec::new();
        for t in family_traits {
            if family_traits.len() == 1 || rng.chance(2, 3) {
                let args = match rng.weighted(&[14, 2, 1]) {
                    0 => String::new(),
                    1 => format!("({})", bound_list(rng)),
                    _ => "(dump)".to_string(),
                };
                parts.push(format!("{t}{args}"));
            }
        }
        if parts.is_empty() {
            parts.push(family_traits[0].to_string());
        }
        let extra = rng.weighted(&[5, 3, 1]);
        for _ in 0..extra {
            let at = rng.below(parts.len() + 1);
            let t = if sane && is_enum {
                rng.pick_str(&["Clone", "Copy", "Debug", "Default", "Hash", "PartialEq", "Eq", "PartialOrd", "Ord"])
            } else if sane {
                rng.pick_str(&TRAITS[..31])
            } else {
                rng.pick_str(TRAITS)
            };
            if !parts.iter().any(|p| p == t || p.starts_with(&format!("{t}("))) {
                parts.insert(at, t.to_string());
            }
        }
        if rng.chance(1, 8) {
            parts.push(bound_list(rng));
        }
        if rng.chance(1, 30) {
            parts.push("dump".into());
        }
        parts.join(", ")
    };
    let derive = rng.chance(3, 10);
    let r = if derive {
        Request { mode: Mode::Derive, attr: String::new(), item: format!("#[derive_ex({list})] {container} {body}") }
    } else {
        Request { mode: Mode::Attr, attr: list, item: format!("{container} {body}") }
    };
    let (a, i) = (lex(&r.attr)?, lex(&r.item)?);
    let r = Request::new(r.mode, &a, &i);
    if !is_valid_request(&r) {
        return None;
    }
    Cand::from_request(&r)
}

const LABEL_MUTANT: u64 = 0x4d55_5441_4e54;

/// The `index`-th generated input of the run with root seed `root`: a corpus or directed item
/// followed by 1..n mutation steps. Pure function of (root, index, corpus, directed).
pub fn gen_input(root: u64, index: u64, pool: &Pool) -> (Request, Vec<&'static str>) {
    let mut rng = Rng::new(derive_seed(root, LABEL_MUTANT, index));
    let mut applied = Vec::new();
    for _attempt in 0..8 {
        applied.clear();
        let composed = rng.chance(3, 10);
        let Some(mut c) = (if composed { compose(&mut rng) } else { pool.any(&mut rng) }) else {
            continue;
        };
        let steps = match rng.weighted(&[30, 25, 18, 12, 8, 4, 3]) {
            6 => rng.range(7, 14),
            k => k + 1,
        };
        let steps = if composed {
            applied.push("compose");
            steps.saturating_sub(1).min(3)
        } else {
            steps
        };
        for _ in 0..steps {
            if let Some(name) = mutate_once(&mut c, &mut rng, pool) {
                applied.push(name);
            }
        }
        if !applied.is_empty() {
            let r = c.to_request();
            if is_valid_request(&r) {
                return (r, applied);
            }
        }
    }
    // fall back to an unmutated pool item (still a valid input)
    let n = pool.corpus.entries.len();
    (pool.corpus.entries[rng.below(n)].req.clone(), vec![])
}

/// `b` with the type name of `a` (schedule kind `name-clash`).
pub fn with_name_of(a: &Request, b: &Request) -> Option<Request> {
    let ca = Cand::from_request(a)?;
    let mut cb = Cand::from_request(b)?;
    let name = match &ca.item {
        Item::Struct(s) => s.ident.clone(),
        Item::Enum(e) => e.ident.clone(),
        _ => return None,
    };
    let old = match &cb.item {
        Item::Struct(s) => s.ident.clone(),
        Item::Enum(e) => e.ident.clone(),
        _ => return None,
    };
    if old == name {
        return None;
    }
    let ts = rename_ident(cb.item.to_token_stream(), &old, &name);
    cb.item = syn::parse2(ts).ok()?;
    cb.attr = rename_ident(cb.attr, &old, &name);
    let r = cb.to_request();
    if r.id() != a.id() && is_valid_request(&r) {
        Some(r)
    } else {
        None
    }
}

pub fn flipped(r: &Request) -> Option<Request> {
    let mut c = Cand::from_request(r)?;
    if !flip_mode(&mut c) {
        return None;
    }
    let r2 = c.to_request();
    if is_valid_request(&r2) {
        Some(r2)
    } else {
        None
    }
}

/// "<Trait>/<struct|enum|impl>/<attr|derive>" for every derivable trait the request names at
/// type level.
pub fn success_labels(r: &Request) -> Vec<String> {
    let Some(c) = Cand::from_request(r) else {
        return vec![];
    };
    let kind = match &c.item {
        Item::Struct(_) => "struct",
        Item::Enum(_) => "enum",
        Item::Impl(_) => "impl",
        _ => return vec![],
    };
    let mode = match c.mode {
        Mode::Attr => "attr",
        Mode::Derive => "derive",
    };
    let mut names: Vec<String> = Vec::new();
    let mut scan = |ts: &TokenStream| {
        for tt in ts.clone() {
            if let TokenTree::Ident(i) = tt {
                let s = i.to_string();
                if TRAITS.contains(&s.as_str()) {
                    names.push(s);
                }
            }
        }
    };
    scan(&c.attr);
    let mut item = c.item.clone();
    if let Some(attrs) = item_attrs_mut(&mut item) {
        for a in attrs.iter() {
            if a.path().is_ident("derive_ex") {
                if let syn::Meta::List(l) = &a.meta {
                    scan(&l.tokens);
                }
            }
        }
    }
    names.sort();
    names.dedup();
    names.into_iter().map(|n| format!("{n}/{kind}/{mode}")).collect()
}

/// Checks that every dictionary fragment parses (run by `dexsim selftest`).
pub fn selftest_dictionaries() -> Vec<String> {
    let mut bad = Vec::new();
    for s in HELPER_ATTRS {
        if attr_from(s).is_none() {
            bad.push(format!("HELPER_ATTRS: {s}"));
        }
    }
    for s in TYPES {
        if ps::<Type>(s).is_none() {
            bad.push(format!("TYPES: {s}"));
        }
    }
    for s in TYPE_WRAPS {
        if ps::<Type>(&s.replace("__", "u8")).is_none() {
            bad.push(format!("TYPE_WRAPS: {s}"));
        }
    }
    for s in GENERIC_PARAMS {
        if ps::<GenericParam>(s).is_none() {
            bad.push(format!("GENERIC_PARAMS: {s}"));
        }
    }
    for s in WHERE_PREDS {
        if ps::<syn::WherePredicate>(s).is_none() {
            bad.push(format!("WHERE_PREDS: {s}"));
        }
    }
    for s in IDENTS {
        if *s != "_" && *s != "__" && mk_ident(s).is_none() {
            bad.push(format!("IDENTS: {s}"));
        }
    }
    for s in ATTR_TOKENS {
        if lex(s).is_none() {
            bad.push(format!("ATTR_TOKENS: {s}"));
        }
    }
    for s in BOUND_ARGS {
        if lex(s).is_none() {
            bad.push(format!("BOUND_ARGS: {s}"));
        }
    }
    for s in VALUE_EXPRS {
        if attr_from(&format!("#[default({s})]")).is_none() {
            bad.push(format!("VALUE_EXPRS: {s}"));
        }
    }
    for s in KEY_EXPRS {
        if attr_from(&format!("#[ord(key = {s})]")).is_none() {
            bad.push(format!("KEY_EXPRS: {s}"));
        }
    }
    for s in ALT_ITEMS {
        if ps::<Item>(s).is_none() {
            bad.push(format!("ALT_ITEMS: {s}"));
        }
    }
    bad
}

#[allow(dead_code)]
fn unused(_: Literal, _: Punct, _: Spacing) {}
