//! A session = one process lifetime of the host. `plan_session` turns (root seed, session
//! index) into an explicit plan; three independent PRNG streams (client / schedule / keys) so
//! that changing one dimension does not perturb the others.

use crate::gen::{flipped, gen_input, with_name_of, Pool};
use crate::plan::{Plan, Policy, Step};
use crate::req::{Mode, Request};
use crate::rng::{derive_seed, Rng};
use serde::{Deserialize, Serialize};
use std::collections::BTreeMap;

const LABEL_SESSION: u64 = 0x5345_5353;
/// Session indices from here on are sweep sessions (see `plan_sweep`).
pub const SWEEP_BASE: u64 = 1 << 40;
/// Session indices in [MARATHON_BASE, SWEEP_BASE) are marathon sessions: ordinary sessions, but
/// 70 000..80 000 requests long over a small working set, so that state which only matters after
/// many expansions in one process (a 16-bit counter, a bounded cache that starts evicting) is
/// reached and every input is re-delivered across that distance.
pub const MARATHON_BASE: u64 = 1 << 39;
/// Session indices in [FLOOD_BASE, MARATHON_BASE) are name-flood sessions (see `plan_flood`).
pub const FLOOD_BASE: u64 = 1 << 38;
/// Session index WARP_BASE + k is ordinary session k again - the same plan - run under the clock
/// seam (`clockwarp.so`: every reading of a clock jumps one hour ahead of the previous one).
pub const WARP_BASE: u64 = 1 << 37;
/// Session indices in [PURE_BASE, WARP_BASE) are entry-pure long sessions (see `plan_pure`).
pub const PURE_BASE: u64 = 1 << 36;
/// Session indices in [PRESSURE_BASE, PURE_BASE) are pressure sessions (see `plan_pressure`).
pub const PRESSURE_BASE: u64 = 1 << 35;

pub const KINDS: &[&str] = &[
    "rekey",
    "degenerate-hasher",
    "std-like-keys",
    "thread-switch",
    "fresh-thread",
    "main-thread",
    "redeliver-now",
    "redeliver-later",
    "name-clash",
    "error-interleave",
    "mode-flip",
    "restart",
    "name-flood",
    "clock-warp",
    "host-mask",
    "entry-pure",
    "stdio-full",
    "thread-churn",
    "cache-pressure",
    "error-storm",
];

#[derive(Clone, Debug, Serialize, Deserialize)]
pub struct SessionParams {
    pub root: u64,
    pub idx: u64,
    /// size of the generated-input space sessions draw mutant indices from
    pub mutants: u64,
    pub min_steps: usize,
    pub max_steps: usize,
    /// number of sweep sessions the pool is divided among
    #[serde(default)]
    pub sweep_n: u64,
    /// length of an entry-pure session in units of `max_steps`
    #[serde(default)]
    pub pure_factor: u64,
}

#[derive(Clone, Debug, Default, Serialize, Deserialize)]
pub struct SessionMeta {
    pub seed: u64,
    pub enabled: Vec<String>,
    pub key_policy: String,
    pub workers: usize,
    pub working_set: usize,
    pub corpus_share_pct: usize,
    pub length: usize,
    /// how often each schedule kind actually produced a step
    pub fired: BTreeMap<String, usize>,
    pub mutation_ops: BTreeMap<String, usize>,
}

/// Requests that are known to take an error path (some of them half-way through a build).
const ERROR_REQS: &[(&str, &str, &str)] = &[
    ("attr", "not a trait list at all ! $ # @", "struct X;"),
    ("attr", "Unknown", "struct X;"),
    ("attr", "Add", "enum X { A(u8) }"),
    ("attr", "Deref", "struct X(u8, u8);"),
    ("attr", "Clone", "fn f() {}"),
    ("derive", "", "#[derive_ex(Clone)] union U { a: u8 }"),
    ("attr", "Clone, Ord, Debug", "struct X<T>(#[ord(by = f)] T, #[partial_ord(ignore)] u8);"),
    ("attr", "Clone, Default, Debug", "enum X<T> { A(T), B(#[debug(transparent)] T, #[debug(transparent)] T) }"),
    ("attr", "Ord, PartialOrd, Eq, PartialEq, Hash", "struct X<T>(T, #[hash(by = f)] T);"),
    ("attr", "Add", "impl Add for X {}"),
    ("attr", "Clone(bound(T : )), Default", "struct X<T>(T);"),
    ("attr", "Clone, Default", "struct X<T>(#[default = 1] T);"),
];

fn error_req(i: usize) -> Request {
    let (m, a, it) = ERROR_REQS[i % ERROR_REQS.len()];
    let a = crate::req::lex(a).unwrap_or_default();
    let it = crate::req::lex(it).unwrap_or_default();
    Request::new(
        if m == "attr" { Mode::Attr } else { Mode::Derive },
        &a,
        &it,
    )
}

/// Skew (0..10 years) and jump (one hour per reading) of the clock seam for a warp session.
pub fn clock_of(idx: u64) -> crate::plan::ClockWarp {
    let days = (idx.wrapping_mul(7919) % 3650) as i128;
    crate::plan::ClockWarp { base_ns: days * 86_400_000_000_000, step_ns: 3_600_000_000_000 }
}

/// Host mask of a warp session (0 = none): cycles with the session index.
pub fn host_of(idx: u64) -> u8 {
    (idx % crate::plan::HOST_MASKS as u64) as u8
}

struct Builder {
    plan: Plan,
    index: BTreeMap<String, usize>,
}
impl Builder {
    fn req_idx(&mut self, r: &Request) -> usize {
        let id = r.id();
        if let Some(i) = self.index.get(&id) {
            return *i;
        }
        self.plan.reqs.push(r.clone());
        self.index.insert(id, self.plan.reqs.len() - 1);
        self.plan.reqs.len() - 1
    }
}

/// Sweep session k of n: every pool item i with i % n == k, in order, each delivered on the
/// initial thread under one key and, a few steps later, on a worker under another key.
fn plan_sweep(p: &SessionParams, pool: &Pool) -> (Plan, SessionMeta) {
    let k = (p.idx - SWEEP_BASE) as usize;
    let n = p.sweep_n.max(1) as usize;
    let seed = derive_seed(p.root, LABEL_SESSION, p.idx);
    let mut keys = Rng::new(derive_seed(seed, 3, 0));
    let mut plan = Plan::default();
    let mut fired: BTreeMap<String, usize> = BTreeMap::new();
    let all = pool
        .corpus
        .entries
        .iter()
        .map(|e| &e.req)
        .chain(pool.directed.iter());
    // first pass: this session's own shard on the initial thread under fresh keys; second pass:
    // the NEXT shard on a worker under counting keys — so every pool item is delivered in two
    // different processes (this one and its neighbour), under two different histories
    let all: Vec<&Request> = all.collect();
    for (i, r) in all.iter().enumerate() {
        if i % n != k {
            continue;
        }
        plan.reqs.push((*r).clone());
        let ri = plan.reqs.len() - 1;
        plan.steps.push(Step {
            req: ri,
            thread: "main".into(),
            policy: Policy::Keyed { k0: keys.next_u64(), k1: keys.next_u64() },
            kinds: vec!["main-thread".into(), "rekey".into()],
        });
    }
    let own = plan.reqs.len();
    // every fourth item again on a worker, alternately under counting keys and under the
    // degenerate hasher (every value collides: what a `Hash` that disagrees with `Eq` cannot hide behind)
    for ri in 0..own {
        if ri % 4 == 0 {
            let degenerate = ri % 8 == 4;
            plan.steps.push(Step {
                req: ri,
                thread: "w0".into(),
                policy: if degenerate { Policy::Degenerate } else { Policy::Counting { k0: keys.next_u64(), k1: keys.next_u64() } },
                kinds: vec!["redeliver-later".into(), "thread-switch".into(), if degenerate { "degenerate-hasher".into() } else { "std-like-keys".into() }],
            });
        }
    }
    for (i, r) in all.iter().enumerate() {
        if n == 1 || i % n != (k + 1) % n {
            continue;
        }
        plan.reqs.push((*r).clone());
        let ri = plan.reqs.len() - 1;
        plan.steps.push(Step {
            req: ri,
            thread: "w0".into(),
            policy: Policy::Counting { k0: keys.next_u64(), k1: keys.next_u64() },
            kinds: vec!["thread-switch".into(), "std-like-keys".into()],
        });
    }
    for st in &plan.steps {
        for kd in &st.kinds {
            *fired.entry(kd.clone()).or_default() += 1;
        }
    }
    let meta = SessionMeta {
        seed,
        enabled: vec!["sweep".into()],
        key_policy: "sweep".into(),
        workers: 1,
        working_set: plan.reqs.len(),
        corpus_share_pct: 100,
        length: plan.steps.len(),
        fired,
        mutation_ops: BTreeMap::new(),
    };
    (plan, meta)
}

/// Name-flood session: ~1 300 fresh identifiers (type, const and lifetime parameters, field,
/// variant and type names) are declared by ~640 small items, and a fixed set of victims is
/// expanded before and / or after the flood: items whose own parameter and whose free type name
/// are flood names a power of two apart (what a bit set, a small-vector threshold or a wrapped
/// index would confuse), plus a sample of ordinary pool items. Even sessions deliver flood ->
/// victims (table positions aligned with the names), odd sessions victims -> flood -> victims
/// -> victims on a worker; both share the victims, so D1 compares within a session and D2
/// across the two processes.
fn plan_flood(p: &SessionParams, pool: &Pool) -> (Plan, SessionMeta) {
    let k = p.idx - FLOOD_BASE;
    let seed = derive_seed(p.root, LABEL_SESSION, p.idx);
    let pair_seed = derive_seed(p.root, LABEL_SESSION, FLOOD_BASE + k / 2);
    let mut client = Rng::new(derive_seed(pair_seed, 1, 0));
    let mut keys = Rng::new(derive_seed(seed, 3, 0));
    let mk = |mode: Mode, attr: &str, item: String| -> Option<Request> {
        let a = crate::req::lex(attr)?;
        let i = crate::req::lex(&item)?;
        let r = Request::new(mode, &a, &i);
        crate::gen::is_valid_request(&r).then_some(r)
    };
    const K: usize = 320;
    let mut flood: Vec<Request> = Vec::new();
    for f in 0..K {
        let (a, b, c, d) = (4 * f, 4 * f + 1, 4 * f + 2, 4 * f + 3);
        flood.extend(mk(Mode::Attr, "Clone, PartialEq", format!("struct F{f}<G{a}, G{b}, G{c}, G{d}>(G{a}, Vec<G{b}>, [G{c}; 1], Option<G{d}>);")));
        flood.extend(mk(Mode::Derive, "", format!("#[derive_ex(Debug, Hash)] enum E{f}<'l{f}, const C{f}: usize> {{ V{f} {{ fld{f}: &'l{f} [u8; C{f}] }}, W{f} }}")));
    }
    let mut victims: Vec<Request> = Vec::new();
    for base in [0usize, 1, 2, 3, 5, 31, 63, 64, 65, 127, 255] {
        for d in [1usize, 2, 4, 8, 16, 32, 64, 128, 256, 512, 1024] {
            let (o, fr) = (base, base + d);
            victims.extend(mk(Mode::Attr, "Clone, Debug, PartialEq, Add", format!("struct V<G{o}>(G{o}, G{fr});")));
            victims.extend(mk(Mode::Derive, "", format!("#[derive_ex(Clone, Default, Hash)] enum V<G{o}> {{ A(G{fr}), #[default] B {{ x: G{o} }} }}")));
            victims.extend(mk(Mode::Attr, "Clone, PartialOrd, PartialEq", format!("struct W<const C{o}: usize>([u8; C{o}], [u8; C{fr}]);")));
            victims.extend(mk(Mode::Attr, "Clone", format!("struct L<'l{o}, T>(&'l{o} T, &'l{fr} T);")));
        }
    }
    for _ in 0..200 {
        if let Some(r) = pool.any_request(&mut client) {
            victims.push(r.clone());
        }
    }
    let mut b = Builder { plan: Plan::default(), index: BTreeMap::new() };
    let mut fired: BTreeMap<String, usize> = BTreeMap::new();
    let mut first = true;
    let mut deliver = |b: &mut Builder, rs: &[Request], thread: &str, kinds: &[&str]| {
        for r in rs {
            let ri = b.req_idx(r);
            let policy = if first {
                first = false;
                Policy::Keyed { k0: keys.next_u64(), k1: keys.next_u64() }
            } else {
                Policy::Keep
            };
            for kd in kinds {
                *fired.entry(kd.to_string()).or_default() += 1;
            }
            b.plan.steps.push(Step { req: ri, thread: thread.into(), policy, kinds: kinds.iter().map(|s| s.to_string()).collect() });
        }
    };
    if k % 2 == 0 {
        deliver(&mut b, &flood, "main", &["name-flood", "main-thread"]);
        deliver(&mut b, &victims, "main", &["main-thread"]);
    } else {
        deliver(&mut b, &victims, "main", &["main-thread"]);
        deliver(&mut b, &flood, "main", &["name-flood", "main-thread"]);
        deliver(&mut b, &victims, "main", &["redeliver-later", "main-thread"]);
        deliver(&mut b, &victims, "w0", &["redeliver-later", "thread-switch"]);
    }
    let meta = SessionMeta {
        seed,
        enabled: vec!["name-flood".into()],
        key_policy: "fixed".into(),
        workers: 1,
        working_set: b.plan.reqs.len(),
        corpus_share_pct: 0,
        length: b.plan.steps.len(),
        fired,
        mutation_ops: BTreeMap::new(),
    };
    (b.plan, meta)
}

/// Pressure session: a set of 150 victims (pool items) is expanded, then the process is put under
/// one kind of pressure, then the victims are expanded again on the same thread.
///   k % 3 == 0  thread churn: 10 000 requests, each on a brand-new thread that exits afterwards
///               (per-thread state registered in a process-wide structure, thread ids that grow);
///   k % 3 == 1  cache pressure: 5 000 distinct inputs in a row (bounded caches start evicting);
///   k % 3 == 2  error storm: 5 000 requests that all end in an error (error counters, "too many
///               errors" logic, residue of early returns).
fn plan_pressure(p: &SessionParams, pool: &Pool) -> (Plan, SessionMeta) {
    let k = p.idx - PRESSURE_BASE;
    let seed = derive_seed(p.root, LABEL_SESSION, p.idx);
    let mut client = Rng::new(derive_seed(seed, 1, 0));
    let mut sched = Rng::new(derive_seed(seed, 2, 0));
    let mut keys = Rng::new(derive_seed(seed, 3, 0));
    let small = |r: &Request| r.item.len() + r.attr.len() < 600;
    let mut victims: Vec<Request> = Vec::new();
    while victims.len() < 150 {
        match pool.any_request(&mut client) {
            Some(r) if small(r) => victims.push(r.clone()),
            Some(_) => {}
            None => break,
        }
    }
    let kind = ["thread-churn", "cache-pressure", "error-storm"][(k % 3) as usize];
    let mut b = Builder { plan: Plan::default(), index: BTreeMap::new() };
    let mut fired: BTreeMap<String, usize> = BTreeMap::new();
    let mut first = true;
    let mut deliver = |b: &mut Builder, r: &Request, thread: &str, kinds: &[&str]| {
        let ri = b.req_idx(r);
        let policy = if first {
            first = false;
            Policy::Keyed { k0: keys.next_u64(), k1: keys.next_u64() }
        } else {
            Policy::Keep
        };
        for kd in kinds {
            *fired.entry(kd.to_string()).or_default() += 1;
        }
        b.plan.steps.push(Step { req: ri, thread: thread.into(), policy, kinds: kinds.iter().map(|s| s.to_string()).collect() });
    };
    for v in &victims {
        deliver(&mut b, v, "main", &["main-thread"]);
    }
    match k % 3 {
        0 => {
            for _ in 0..10_000 {
                let r = &victims[sched.below(victims.len().max(1))];
                deliver(&mut b, r, "fresh", &[kind, "fresh-thread", "redeliver-later"]);
            }
        }
        1 => {
            let start = sched.below(pool.directed.len().max(1));
            let mut n = 0;
            let mut i = start;
            while n < 5_000 && !pool.directed.is_empty() {
                let r = &pool.directed[i % pool.directed.len()];
                i += 7;
                if small(r) {
                    deliver(&mut b, r, "main", &[kind, "main-thread"]);
                    n += 1;
                }
                if i > start + 7 * 60_000 {
                    break;
                }
            }
        }
        _ => {
            for i in 0..5_000 {
                let e = if i % 2 == 0 || pool.directed.is_empty() {
                    error_req(sched.below(ERROR_REQS.len()))
                } else {
                    // directed seeds from the unsupported-item / unknown-trait blocks mostly fail
                    pool.directed[sched.below(pool.directed.len())].clone()
                };
                if small(&e) {
                    deliver(&mut b, &e, "main", &[kind, "error-interleave", "main-thread"]);
                }
            }
        }
    }
    for v in &victims {
        deliver(&mut b, v, "main", &["redeliver-later", "main-thread"]);
    }
    for v in victims.iter().take(50) {
        deliver(&mut b, v, "fresh", &["redeliver-later", "fresh-thread"]);
    }
    let meta = SessionMeta {
        seed,
        enabled: vec![kind.to_string()],
        key_policy: "fixed".into(),
        workers: 0,
        working_set: b.plan.reqs.len(),
        corpus_share_pct: 0,
        length: b.plan.steps.len(),
        fired,
        mutation_ops: BTreeMap::new(),
    };
    (b.plan, meta)
}

/// Entry-pure long session: 60 000 (quick) / 200 000 (thorough) requests that all come through ONE entry point - the derive
/// macro only (k % 3 == 0), the attribute macro on structs / enums only (1), or on impl items only
/// (2) - over a working set of 64 items, half of them carrying comparison helpers. A host that
/// compiles a crate using only `#[derive(Ex)]` never calls the other entry point; per-process state
/// that one entry point maintains and only the other resets (or checks) needs such a run to show.
fn plan_pure(p: &SessionParams, pool: &Pool) -> (Plan, SessionMeta) {
    let k = p.idx - PURE_BASE;
    let seed = derive_seed(p.root, LABEL_SESSION, p.idx);
    let mut client = Rng::new(derive_seed(seed, 1, 0));
    let mut sched = Rng::new(derive_seed(seed, 2, 0));
    let mut keys = Rng::new(derive_seed(seed, 3, 0));
    let want = k % 3;
    let fits = |r: &Request| -> Option<Request> {
        let is_impl = r.item.trim_start().starts_with("impl") || r.item.contains(" impl ");
        match want {
            0 => match r.mode {
                Mode::Derive => Some(r.clone()),
                Mode::Attr if !is_impl => flipped(r).filter(|f| f.mode == Mode::Derive),
                _ => None,
            },
            1 => match r.mode {
                Mode::Attr if !is_impl => Some(r.clone()),
                Mode::Derive => flipped(r).filter(|f| f.mode == Mode::Attr),
                _ => None,
            },
            _ => (r.mode == Mode::Attr && is_impl).then(|| r.clone()),
        }
    };
    let mut ws: Vec<Request> = Vec::new();
    let mut tries = 0;
    while ws.len() < 64 && tries < 20_000 {
        tries += 1;
        let Some(r) = pool.any_request(&mut client) else { break };
        // small items (the session is long), three quarters of them with `key = ..` templates
        if r.item.len() + r.attr.len() > 700 {
            continue;
        }
        let with_templates = r.item.contains("key =");
        if want != 2 && ws.len() % 4 != 3 && !with_templates {
            continue;
        }
        if let Some(f) = fits(r) {
            if crate::gen::is_valid_request(&f) {
                ws.push(f);
            }
        }
    }
    let mut b = Builder { plan: Plan::default(), index: BTreeMap::new() };
    let mut fired: BTreeMap<String, usize> = BTreeMap::new();
    // `max_steps` is the ordinary sessions' upper bound (2 000): 30x in the quick tier; the driver
    // passes 100x for the thorough tier (`--pure-factor`)
    let n = if ws.is_empty() { 0 } else { p.max_steps.max(1) * p.pure_factor.max(1) as usize };
    for i in 0..n {
        let r = &ws[sched.below(ws.len())];
        let ri = b.req_idx(r);
        let policy = if i == 0 { Policy::Keyed { k0: keys.next_u64(), k1: keys.next_u64() } } else { Policy::Keep };
        *fired.entry("entry-pure".into()).or_default() += 1;
        b.plan.steps.push(Step { req: ri, thread: "main".into(), policy, kinds: vec!["entry-pure".into(), "main-thread".into()] });
    }
    let meta = SessionMeta {
        seed,
        enabled: vec![["derive-only", "attr-type-only", "attr-impl-only"][want as usize].to_string()],
        key_policy: "fixed".into(),
        workers: 0,
        working_set: ws.len(),
        corpus_share_pct: 0,
        length: b.plan.steps.len(),
        fired,
        mutation_ops: BTreeMap::new(),
    };
    (b.plan, meta)
}

pub fn plan_session(p: &SessionParams, pool: &Pool) -> (Plan, SessionMeta) {
    if p.idx >= SWEEP_BASE {
        return plan_sweep(p, pool);
    }
    if p.idx >= FLOOD_BASE && p.idx < MARATHON_BASE {
        return plan_flood(p, pool);
    }
    if p.idx >= PURE_BASE && p.idx < WARP_BASE {
        return plan_pure(p, pool);
    }
    if p.idx >= PRESSURE_BASE && p.idx < PURE_BASE {
        return plan_pressure(p, pool);
    }
    if p.idx >= WARP_BASE && p.idx < FLOOD_BASE {
        let mut q = p.clone();
        q.idx = p.idx - WARP_BASE;
        let (mut plan, mut meta) = plan_session(&q, pool);
        plan.clock = Some(clock_of(p.idx));
        if host_of(p.idx) != 0 {
            plan.host = Some(host_of(p.idx));
            meta.enabled.push("host-mask".into());
            meta.fired.insert("host-mask".into(), plan.steps.len());
        }
        meta.enabled.push("clock-warp".into());
        meta.enabled.push("stdio-full".into());
        meta.fired.insert("clock-warp".into(), plan.steps.len());
        meta.fired.insert("stdio-full".into(), plan.steps.len());
        return (plan, meta);
    }
    let seed = derive_seed(p.root, LABEL_SESSION, p.idx);
    // Twin sessions: sessions 2k and 2k+1 draw the same working set (client stream) but have
    // their own schedule and key streams, so every input is observed in at least two processes
    // under two different histories (the `restart` kind with teeth).
    let twin_seed = derive_seed(p.root, LABEL_SESSION, p.idx / 2);
    let mut client = Rng::new(derive_seed(twin_seed, 1, 0));
    let mut sched = Rng::new(derive_seed(seed, 2, 0));
    let mut keys = Rng::new(derive_seed(seed, 3, 0));
    let mut meta = SessionMeta {
        seed,
        ..Default::default()
    };

    // ---- swarm configuration (schedule stream)
    let switchable = [
        "rekey",
        "thread-switch",
        "fresh-thread",
        "main-thread",
        "redeliver-now",
        "redeliver-later",
        "name-clash",
        "error-interleave",
        "mode-flip",
    ];
    let mut enabled: Vec<&str> = switchable.iter().copied().filter(|_| sched.chance(2, 3)).collect();
    if !enabled.iter().any(|k| k.starts_with("redeliver")) {
        enabled.push("redeliver-later");
    }
    let on = |k: &str, enabled: &Vec<&str>| enabled.iter().any(|e| *e == k);
    let key_policy = ["per-request", "fixed", "degenerate", "counting"][sched.weighted(&[5, 2, 1, 2])];
    match key_policy {
        "degenerate" => enabled.push("degenerate-hasher"),
        "counting" => enabled.push("std-like-keys"),
        _ => {}
    }
    let workers = sched.range(1, 4);
    let length = if p.idx >= MARATHON_BASE {
        sched.range(70_000, 80_000)
    } else {
        sched.range(p.min_steps, p.max_steps.max(p.min_steps))
    };
    // the working set belongs to the twin pair, so its size and mix come from the client stream
    let ws_size = client.range(8, 256);
    let corpus_share = *client.pick(&[10usize, 30, 60]);
    meta.enabled = enabled.iter().map(|s| s.to_string()).collect();
    meta.key_policy = key_policy.to_string();
    meta.workers = workers;
    meta.length = length;
    meta.working_set = ws_size;
    meta.corpus_share_pct = corpus_share;

    // ---- working set (client stream)
    let mut ws: Vec<Request> = Vec::with_capacity(ws_size);
    for _ in 0..ws_size {
        if client.below(100) < corpus_share {
            let r = pool.any_request(&mut client).expect("non-empty pool").clone();
            ws.push(r);
        } else {
            let m = client.next_u64() % p.mutants.max(1);
            let (r, ops) = gen_input(p.root, m, pool);
            for o in ops {
                *meta.mutation_ops.entry(o.to_string()).or_default() += 1;
            }
            ws.push(r);
        }
    }

    // ---- steps (schedule stream; keys stream for hash keys)
    let mut b = Builder {
        plan: Plan::default(),
        index: BTreeMap::new(),
    };
    let mut fired: BTreeMap<String, usize> = BTreeMap::new();
    let mut delivered: Vec<usize> = Vec::new(); // req indices delivered so far, in order
    let mut next_fresh_ws = 0usize;
    let mut first_step = true;
    let mut last_thread = String::new();

    let mut push = |b: &mut Builder,
                    r: &Request,
                    kinds: Vec<&str>,
                    sched: &mut Rng,
                    keys: &mut Rng,
                    fired: &mut BTreeMap<String, usize>,
                    delivered: &mut Vec<usize>| {
        let mut kinds: Vec<String> = kinds.into_iter().map(|s| s.to_string()).collect();
        // thread
        let mut opts: Vec<(&str, usize)> = Vec::new();
        if on("main-thread", &enabled) {
            opts.push(("main", 3));
        }
        opts.push(("worker", 4));
        if on("fresh-thread", &enabled) {
            opts.push(("fresh", 2));
        }
        let w: Vec<usize> = opts.iter().map(|o| o.1).collect();
        let thread = match opts[sched.weighted(&w)].0 {
            "main" => {
                kinds.push("main-thread".into());
                "main".to_string()
            }
            "fresh" => {
                kinds.push("fresh-thread".into());
                "fresh".to_string()
            }
            _ => {
                let k = if on("thread-switch", &enabled) {
                    sched.below(workers)
                } else {
                    0
                };
                format!("w{k}")
            }
        };
        if !last_thread.is_empty() && last_thread != thread && thread != "fresh" && thread != "main" {
            kinds.push("thread-switch".into());
        }
        last_thread = thread.clone();
        // hash policy
        let policy = match key_policy {
            "per-request" => {
                if first_step || on("rekey", &enabled) {
                    if !first_step {
                        kinds.push("rekey".into());
                    }
                    Policy::Keyed {
                        k0: keys.next_u64(),
                        k1: keys.next_u64(),
                    }
                } else {
                    Policy::Keep
                }
            }
            "fixed" => {
                if first_step {
                    Policy::Keyed {
                        k0: keys.next_u64(),
                        k1: keys.next_u64(),
                    }
                } else {
                    Policy::Keep
                }
            }
            "degenerate" => {
                kinds.push("degenerate-hasher".into());
                if first_step {
                    Policy::Degenerate
                } else {
                    Policy::Keep
                }
            }
            _ => {
                kinds.push("std-like-keys".into());
                if first_step || (on("rekey", &enabled) && sched.chance(1, 50)) {
                    Policy::Counting {
                        k0: keys.next_u64(),
                        k1: keys.next_u64(),
                    }
                } else {
                    Policy::Keep
                }
            }
        };
        first_step = false;
        let ri = b.req_idx(r);
        for k in &kinds {
            *fired.entry(k.clone()).or_default() += 1;
        }
        delivered.push(ri);
        b.plan.steps.push(Step {
            req: ri,
            thread,
            policy,
            kinds,
        });
    };

    while b.plan.steps.len() < length {
        let mut acts: Vec<(&str, usize)> = vec![("new", 10)];
        if !delivered.is_empty() {
            if on("redeliver-now", &enabled) {
                acts.push(("redeliver-now", 3));
            }
            if on("redeliver-later", &enabled) {
                acts.push(("redeliver-later", 6));
            }
        }
        if on("name-clash", &enabled) {
            acts.push(("name-clash", 1));
        }
        if on("error-interleave", &enabled) {
            acts.push(("error-interleave", 1));
        }
        if on("mode-flip", &enabled) {
            acts.push(("mode-flip", 1));
        }
        let w: Vec<usize> = acts.iter().map(|a| a.1).collect();
        match acts[sched.weighted(&w)].0 {
            "new" => {
                let r = if next_fresh_ws < ws.len() {
                    next_fresh_ws += 1;
                    ws[next_fresh_ws - 1].clone()
                } else {
                    ws[sched.below(ws.len())].clone()
                };
                push(&mut b, &r, vec![], &mut sched, &mut keys, &mut fired, &mut delivered);
            }
            "redeliver-now" => {
                let ri = *delivered.last().unwrap();
                let r = b.plan.reqs[ri].clone();
                push(&mut b, &r, vec!["redeliver-now"], &mut sched, &mut keys, &mut fired, &mut delivered);
            }
            "redeliver-later" => {
                let ri = delivered[sched.below(delivered.len())];
                let r = b.plan.reqs[ri].clone();
                push(&mut b, &r, vec!["redeliver-later"], &mut sched, &mut keys, &mut fired, &mut delivered);
            }
            "name-clash" => {
                let a = ws[sched.below(ws.len())].clone();
                let bb = ws[sched.below(ws.len())].clone();
                if let Some(b2) = with_name_of(&a, &bb) {
                    push(&mut b, &a, vec![], &mut sched, &mut keys, &mut fired, &mut delivered);
                    push(&mut b, &b2, vec!["name-clash"], &mut sched, &mut keys, &mut fired, &mut delivered);
                    push(&mut b, &a, vec!["redeliver-later"], &mut sched, &mut keys, &mut fired, &mut delivered);
                }
            }
            "error-interleave" => {
                let g = ws[sched.below(ws.len())].clone();
                // half of the time a fixed request known to fail half-way, otherwise any directed
                // seed (most of them end in an error of some kind, each leaving by its own path)
                let e = if pool.directed.is_empty() || sched.chance(1, 2) {
                    error_req(sched.below(ERROR_REQS.len()))
                } else {
                    pool.directed[sched.below(pool.directed.len())].clone()
                };
                push(&mut b, &g, vec![], &mut sched, &mut keys, &mut fired, &mut delivered);
                push(&mut b, &e, vec!["error-interleave"], &mut sched, &mut keys, &mut fired, &mut delivered);
                push(&mut b, &g, vec!["redeliver-later"], &mut sched, &mut keys, &mut fired, &mut delivered);
            }
            _ => {
                let a = ws[sched.below(ws.len())].clone();
                if let Some(f) = flipped(&a) {
                    push(&mut b, &a, vec![], &mut sched, &mut keys, &mut fired, &mut delivered);
                    push(&mut b, &f, vec!["mode-flip"], &mut sched, &mut keys, &mut fired, &mut delivered);
                    push(&mut b, &a, vec!["redeliver-later"], &mut sched, &mut keys, &mut fired, &mut delivered);
                }
            }
        }
    }
    meta.fired = fired;
    (b.plan, meta)
}

#[derive(Clone, Debug, Serialize, Deserialize)]
pub struct SessionResult {
    pub params: SessionParams,
    pub meta: SessionMeta,
    pub n_reqs: usize,
    pub n_steps: usize,
    pub log: crate::exec::ExecLog,
}
