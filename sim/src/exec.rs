//! Executes a plan: the baton scheduler, the per-step oracles (T1 no panic, T2 well-formed,
//! T3 errors carry a message, T4 watchdog) and the session model (D1 single-valuedness).
//!
//! Threads are real `std::thread`s so that thread-local state of the expander would really be
//! per thread, but at most one of them is ever runnable: the controller hands one request to
//! one thread over a channel and blocks until the reply arrives.

use crate::plan::{Plan, Policy, Step};
use crate::req::{canon, digest, lex, Mode, Request};
use serde::{Deserialize, Serialize};
use std::cell::RefCell;
use std::collections::BTreeMap;
use std::panic::{catch_unwind, AssertUnwindSafe};
use std::sync::mpsc::{channel, Receiver, RecvTimeoutError, Sender};
use std::time::Duration;

pub const WORKER_STACK: usize = 64 << 20;

#[derive(Clone, Debug, Eq, PartialEq, Serialize, Deserialize)]
#[serde(rename_all = "lowercase")]
pub enum Outcome {
    Ok,
    Panic,
    Illformed,
    Nomsg,
    Hang,
    /// the request text does not lex / is not a valid input (harness problem, never a verdict)
    Invalid,
}

/// What one expansion looked like from outside.
#[derive(Clone, Debug, Serialize, Deserialize)]
pub struct Obs {
    pub outcome: Outcome,
    /// digest of the canonical output tokens ("" when there is no output)
    pub digest: String,
    /// panic location and message / re-parse error / offending invocation
    pub detail: String,
    pub n_items: usize,
    pub n_impls: usize,
    /// messages of item-level compile_error! invocations the expander emitted
    pub errors: Vec<String>,
    /// printed output (kept for the first observation of an input and for violations)
    pub text: String,
}

thread_local! {
    static LAST_PANIC: RefCell<Option<(String, String)>> = const { RefCell::new(None) };
    static IN_EXPANSION: std::cell::Cell<bool> = const { std::cell::Cell::new(false) };
}

pub fn install_panic_hook() {
    std::panic::set_hook(Box::new(|info| {
        let loc = info
            .location()
            .map(|l| format!("{}:{}", l.file(), l.line()))
            .unwrap_or_else(|| "?".into());
        let msg = if let Some(s) = info.payload().downcast_ref::<&str>() {
            s.to_string()
        } else if let Some(s) = info.payload().downcast_ref::<String>() {
            s.clone()
        } else {
            "<non-string payload>".into()
        };
        if IN_EXPANSION.with(|f| f.get()) {
            LAST_PANIC.with(|p| *p.borrow_mut() = Some((loc, msg)));
        } else {
            // a panic of the harness itself: never a verdict
            eprintln!("dexsim: harness panic at {loc}: {msg}");
        }
    }));
}

/// Tells the clock seam (if the process runs under `clockwarp.so`) that the calling thread
/// enters / leaves an expansion, so that the seam can count the clock readings the expander makes.
fn clock_mark(on: bool) {
    use std::sync::OnceLock;
    extern "C" {
        fn dlsym(handle: *mut std::ffi::c_void, symbol: *const std::ffi::c_char) -> *mut std::ffi::c_void;
    }
    static MARK: OnceLock<Option<extern "C" fn(i32)>> = OnceLock::new();
    let f = MARK.get_or_init(|| {
        // RTLD_DEFAULT: the symbol only exists when the shim is preloaded
        let p = unsafe { dlsym(std::ptr::null_mut(), b"dexsim_clock_mark\0".as_ptr() as *const std::ffi::c_char) };
        if p.is_null() {
            None
        } else {
            Some(unsafe { std::mem::transmute::<*mut std::ffi::c_void, extern "C" fn(i32)>(p) })
        }
    });
    if let Some(f) = f {
        f(on as i32);
    }
}

/// True when the process runs under the clock seam (`clockwarp.so` is preloaded).
fn clock_seam_present() -> bool {
    extern "C" {
        fn dlsym(handle: *mut std::ffi::c_void, symbol: *const std::ffi::c_char) -> *mut std::ffi::c_void;
    }
    static SEAM: std::sync::OnceLock<bool> = std::sync::OnceLock::new();
    *SEAM.get_or_init(|| !unsafe { dlsym(std::ptr::null_mut(), b"dexsim_clock_mark\0".as_ptr() as *const std::ffi::c_char) }.is_null())
}

#[cfg(target_arch = "x86_64")]
const NR_CLOCK_GETTIME_NANOSLEEP: (std::ffi::c_long, std::ffi::c_long) = (228, 35);
#[cfg(target_arch = "aarch64")]
const NR_CLOCK_GETTIME_NANOSLEEP: (std::ffi::c_long, std::ffi::c_long) = (113, 101);

/// The real monotonic clock and a real sleep, through raw system calls: the clock seam is a shim
/// over the libc entry points, and the harness's own watchdog must keep working under it.
fn raw_monotonic_ns() -> u128 {
    extern "C" {
        fn syscall(num: std::ffi::c_long, ...) -> std::ffi::c_long;
    }
    let mut ts = [0i64; 2];
    unsafe { syscall(NR_CLOCK_GETTIME_NANOSLEEP.0, 1 as std::ffi::c_long, ts.as_mut_ptr()) };
    ts[0] as u128 * 1_000_000_000 + ts[1] as u128
}
fn raw_sleep_us(us: i64) {
    extern "C" {
        fn syscall(num: std::ffi::c_long, ...) -> std::ffi::c_long;
    }
    let ts = [0i64, us * 1000];
    unsafe { syscall(NR_CLOCK_GETTIME_NANOSLEEP.1, ts.as_ptr(), std::ptr::null_mut::<i64>()) };
}

/// `recv_timeout` that also works under the clock seam, where every reading of the libc clock
/// lands an hour after the previous one (std's timed waits would all expire at once).
fn recv_watch<T>(rx: &std::sync::mpsc::Receiver<T>, timeout: Duration) -> Result<T, RecvTimeoutError> {
    if !clock_seam_present() {
        return rx.recv_timeout(timeout);
    }
    let t0 = raw_monotonic_ns();
    let mut polls = 0u32;
    loop {
        match rx.try_recv() {
            Ok(v) => return Ok(v),
            Err(std::sync::mpsc::TryRecvError::Disconnected) => return Err(RecvTimeoutError::Disconnected),
            Err(std::sync::mpsc::TryRecvError::Empty) => {}
        }
        polls += 1;
        if polls < 400 {
            std::thread::yield_now();
        } else {
            raw_sleep_us(if polls < 2000 { 20 } else { 500 });
            if raw_monotonic_ns() - t0 > timeout.as_nanos() {
                return Err(RecvTimeoutError::Timeout);
            }
        }
    }
}

fn is_compile_error_path(p: &syn::Path) -> bool {
    p.segments
        .last()
        .map(|s| s.ident == "compile_error")
        .unwrap_or(false)
}

/// `Some(message)` if the macro arguments are exactly one string literal (optionally followed
/// by a comma), `None` otherwise.
fn compile_error_message(tokens: &proc_macro2::TokenStream) -> Option<String> {
    let mut it = tokens.clone().into_iter();
    let first = it.next()?;
    match it.next() {
        None => {}
        Some(proc_macro2::TokenTree::Punct(p)) if p.as_char() == ',' => {
            if it.next().is_some() {
                return None;
            }
        }
        Some(_) => return None,
    }
    let lit: syn::LitStr = syn::parse2(first.into()).ok()?;
    Some(lit.value())
}

/// Expands one request on the current thread and applies T1–T3.
pub fn expand_and_observe(req: &Request) -> Obs {
    expand_and_observe_known(req, None)
}

pub fn expand_and_observe_known(req: &Request, known: Option<&Known>) -> Obs {
    let mut obs = Obs {
        outcome: Outcome::Ok,
        digest: String::new(),
        detail: String::new(),
        n_items: 0,
        n_impls: 0,
        errors: vec![],
        text: String::new(),
    };
    let (attr, item) = match (lex(&req.attr), lex(&req.item)) {
        (Some(a), Some(i)) => (a, i),
        _ => {
            obs.outcome = Outcome::Invalid;
            obs.detail = "request does not lex".into();
            return obs;
        }
    };
    // the user's own item, if it is itself a compile_error! invocation (not ours to judge)
    let user_ce: Option<String> = match syn::parse2::<syn::Item>(item.clone()) {
        Ok(syn::Item::Macro(m)) if is_compile_error_path(&m.mac.path) => {
            Some(canon(&m.mac.tokens))
        }
        _ => None,
    };
    LAST_PANIC.with(|p| *p.borrow_mut() = None);
    let mode = req.mode;
    IN_EXPANSION.with(|f| f.set(true));
    clock_mark(true);
    let result = catch_unwind(AssertUnwindSafe(move || match mode {
        Mode::Attr => derive_ex::verif_hooks::expand_attr(attr, item),
        Mode::Derive => derive_ex::verif_hooks::expand_derive(item),
    }));
    clock_mark(false);
    IN_EXPANSION.with(|f| f.set(false));
    let out = match result {
        Ok(out) => out,
        Err(_) => {
            let (loc, msg) = LAST_PANIC
                .with(|p| p.borrow_mut().take())
                .unwrap_or_else(|| ("?".into(), "?".into()));
            obs.outcome = Outcome::Panic;
            obs.detail = format!("{loc}: {msg}");
            return obs;
        }
    };
    obs.digest = digest(&canon(&out));
    if let Some(k) = known {
        if k.digest == obs.digest && k.outcome == Outcome::Ok {
            // token-for-token the output already judged at the first delivery
            if k.had_errors {
                obs.errors.push("(as at the first delivery)".into());
            }
            return obs;
        }
    }
    obs.text = out.to_string();
    // T2 twice: the token stream as returned, and its printed form (a real compiler does not
    // honour None-delimited groups the way syn does, so output that only parses thanks to them
    // is not well-formed for a user)
    let skip_text = req.has_expr_none_group();
    let reparsed = match syn::parse2::<syn::File>(out) {
        Ok(f) if skip_text => Ok(f),
        Ok(f) => match syn::parse_str::<syn::File>(&obs.text) {
            Ok(_) => Ok(f),
            Err(e) => Err(syn::Error::new(
                proc_macro2::Span::call_site(),
                format!("{e} (in the printed output; the token stream only parses thanks to None-delimited groups)"),
            )),
        },
        Err(e) => Err(e),
    };
    match reparsed {
        Err(e) => {
            obs.outcome = Outcome::Illformed;
            obs.detail = e.to_string();
        }
        Ok(file) => {
            obs.n_items = file.items.len();
            // nested invocations (inside generated impls, consts, fn bodies): only when the
            // input itself never mentions compile_error, so that they cannot be the user's
            if !req.item.contains("compile_error") && !req.attr.contains("compile_error") {
                use syn::visit::Visit;
                struct Deep(Option<String>);
                impl<'a> Visit<'a> for Deep {
                    fn visit_macro(&mut self, m: &'a syn::Macro) {
                        if is_compile_error_path(&m.path) {
                            match compile_error_message(&m.tokens) {
                                Some(msg) if !msg.trim().is_empty() => {}
                                _ => {
                                    if self.0.is_none() {
                                        self.0 = Some(quote::ToTokens::to_token_stream(m).to_string());
                                    }
                                }
                            }
                        }
                    }
                }
                let mut d = Deep(None);
                d.visit_file(&file);
                if let Some(bad) = d.0 {
                    obs.outcome = Outcome::Nomsg;
                    obs.detail = format!("compile_error! without a message: `{bad}`");
                }
            }
            let mut user_ce = user_ce;
            for it in &file.items {
                match it {
                    syn::Item::Impl(_) => obs.n_impls += 1,
                    syn::Item::Macro(m) if is_compile_error_path(&m.mac.path) => {
                        if let Some(u) = &user_ce {
                            if *u == canon(&m.mac.tokens) {
                                user_ce = None;
                                continue;
                            }
                        }
                        match compile_error_message(&m.mac.tokens) {
                            Some(msg) if !msg.trim().is_empty() => {
                                let mut msg = msg;
                                if msg.len() > 300 {
                                    let mut cut = 300;
                                    while !msg.is_char_boundary(cut) {
                                        cut -= 1;
                                    }
                                    msg.truncate(cut);
                                }
                                obs.errors.push(msg);
                            }
                            _ => {
                                obs.outcome = Outcome::Nomsg;
                                obs.detail = format!(
                                    "compile_error! without a message: `{}`",
                                    quote::ToTokens::to_token_stream(&m.mac)
                                );
                            }
                        }
                    }
                    _ => {}
                }
            }
        }
    }
    obs
}

pub fn apply_policy(p: &Policy) {
    #[cfg(not(frozenlib_derive_ex_verif_stdhash))]
    {
        use derive_ex::verif_hooks::{set_hash_policy, HashPolicy};
        match p {
            Policy::Keyed { k0, k1 } => set_hash_policy(HashPolicy::Keyed(*k0, *k1)),
            Policy::Counting { k0, k1 } => set_hash_policy(HashPolicy::Counting(*k0, *k1)),
            Policy::Degenerate => set_hash_policy(HashPolicy::Degenerate),
            Policy::Os => set_hash_policy(HashPolicy::Os),
            Policy::Keep => {}
        }
    }
    #[cfg(frozenlib_derive_ex_verif_stdhash)]
    {
        let _ = p;
    }
}

pub fn hash_stats() -> (u64, u64) {
    #[cfg(not(frozenlib_derive_ex_verif_stdhash))]
    {
        derive_ex::verif_hooks::hash_stats()
    }
    #[cfg(frozenlib_derive_ex_verif_stdhash)]
    {
        (0, 0)
    }
}

pub fn seam_active() -> bool {
    cfg!(not(frozenlib_derive_ex_verif_stdhash))
}

type Job = Option<(Request, Option<Known>)>;

struct Worker {
    tx: Sender<Job>,
    rx: Receiver<Obs>,
    handle: Option<std::thread::JoinHandle<()>>,
}

/// What the session model already holds for an input (first delivery): if a re-delivery produces
/// the same 128-bit digest, its tokens are the ones T2 / T3 have already judged, and printing and
/// re-parsing them again is skipped (re-deliveries are most of a long session).
#[derive(Clone, Debug)]
pub struct Known {
    pub digest: String,
    pub outcome: Outcome,
    pub had_errors: bool,
}

fn worker_loop(rx: Receiver<Job>, tx: Sender<Obs>) {
    while let Ok(Some((req, known))) = rx.recv() {
        let obs = expand_and_observe_known(&req, known.as_ref());
        if tx.send(obs).is_err() {
            break;
        }
    }
}

#[derive(Clone, Debug, Serialize, Deserialize)]
pub struct Violation {
    /// panic | illformed | nomsg | hang | diverge
    pub kind: String,
    /// kind plus cause (panic site, parse error, ...); the unit of deduplication
    pub class: String,
    pub step: usize,
    pub req: Request,
    pub detail: String,
    pub thread: String,
    pub policy: Policy,
    /// for diverge: the step whose output this one disagrees with
    #[serde(default)]
    pub earlier_step: Option<usize>,
    /// for divergence across processes: the session the earlier step belongs to
    #[serde(default)]
    pub earlier_session: Option<u64>,
    #[serde(default)]
    pub text_a: String,
    #[serde(default)]
    pub text_b: String,
}

pub fn classify(obs: &Obs) -> String {
    match obs.outcome {
        Outcome::Panic => {
            // location, plus the message with digits and quoted text removed so that the class
            // does not depend on the particular input
            let (loc, msg) = obs.detail.split_once(": ").unwrap_or((&obs.detail, ""));
            format!("panic@{} {}", loc, squash(msg))
        }
        Outcome::Illformed => format!("illformed: {}", squash(&obs.detail)),
        Outcome::Nomsg => "nomsg".into(),
        Outcome::Hang => "hang".into(),
        Outcome::Ok | Outcome::Invalid => String::new(),
    }
}

/// Replaces back-quoted fragments and digit runs so that messages differing only in the names
/// they mention fall into one class.
pub fn squash(s: &str) -> String {
    let mut out = String::new();
    let mut in_tick = false;
    let mut last_digit = false;
    for c in s.chars() {
        if c == '`' || c == '"' {
            in_tick = !in_tick;
            if in_tick {
                out.push_str("`_`");
            }
            continue;
        }
        if in_tick {
            continue;
        }
        if c.is_ascii_digit() {
            if !last_digit {
                out.push('#');
            }
            last_digit = true;
            continue;
        }
        last_digit = false;
        out.push(c);
    }
    if out.len() > 160 {
        let mut cut = 160;
        while !out.is_char_boundary(cut) {
            cut -= 1;
        }
        out.truncate(cut);
    }
    out
}

/// Per distinct input of a session: what the model recorded.
#[derive(Clone, Debug, Serialize, Deserialize)]
pub struct InputRecord {
    pub id: String,
    pub mode: Mode,
    pub outcome: Outcome,
    pub digest: String,
    pub n_impls: usize,
    pub errors: Vec<String>,
    pub deliveries: usize,
    /// distinct context signatures this input was observed under
    pub ctxs: Vec<String>,
    pub first_step: usize,
    /// "<Trait>/<item kind>/<entry point>" for every trait requested, when the expansion
    /// produced impls and no error (reach probe)
    #[serde(default)]
    pub success: Vec<String>,
}

#[derive(Clone, Debug, Default, Serialize, Deserialize)]
pub struct ExecLog {
    pub plan_digest: String,
    pub steps_run: usize,
    pub inputs: Vec<InputRecord>,
    pub violations: Vec<Violation>,
    /// per step: "<req idx> <thread> <digest|outcome>" (only when asked for)
    pub step_log: Vec<String>,
    pub hash_containers: u64,
    pub hash_hashes: u64,
    pub seam_active: bool,
    pub threads_used: usize,
    /// (request index, printed output) of every distinct input that expanded (only when asked)
    #[serde(default)]
    pub texts: Vec<(usize, String)>,
}

pub struct ExecOptions {
    pub step_log: bool,
    /// watchdog per expansion
    pub timeout: Duration,
    /// stop after this many violations
    pub max_violations: usize,
    /// after a hang, exit the process once the log has been handed to the sink
    pub exit_on_hang: bool,
    /// append the index of every step to this file before it starts (crash attribution)
    pub progress: Option<std::path::PathBuf>,
    /// keep the printed output of every distinct input in the log (for the rustc-parser engine)
    pub keep_text: bool,
}
impl Default for ExecOptions {
    fn default() -> Self {
        Self {
            step_log: false,
            timeout: Duration::from_secs(30),
            max_violations: 200,
            exit_on_hang: false,
            progress: None,
            keep_text: false,
        }
    }
}

fn ctx_sig(step: &Step, redelivery: bool, after_error: bool) -> String {
    let t = if step.thread == "main" {
        "main"
    } else if step.thread == "fresh" {
        "fresh"
    } else {
        "worker"
    };
    let p = match step.policy {
        Policy::Keyed { .. } => "keyed",
        Policy::Counting { .. } => "counting",
        Policy::Degenerate => "degenerate",
        Policy::Os => "os",
        Policy::Keep => "keep",
    };
    format!(
        "{t}/{p}/{}/{}",
        if redelivery { "again" } else { "first" },
        if after_error { "after-error" } else { "after-ok" }
    )
}

/// Runs `plan` with the calling thread acting as the process's "main" expansion thread; the
/// controller itself runs on a helper thread and hands the finished log to `sink` (on the
/// controller thread, so that it still happens when the initial thread is the one that hangs).
/// Must be called from the initial thread of the process for the "main" label to be truthful.
pub fn exec_with(plan: &Plan, opts: ExecOptions, sink: impl FnOnce(ExecLog) + Send + 'static) {
    let (main_job_tx, main_job_rx) = channel::<Job>();
    let (main_obs_tx, main_obs_rx) = channel::<Obs>();
    let plan2 = plan.clone();
    let controller = std::thread::Builder::new()
        .name("controller".into())
        .stack_size(WORKER_STACK)
        .spawn(move || {
            let main = Worker {
                tx: main_job_tx,
                rx: main_obs_rx,
                handle: None,
            };
            let (log, dead) = controller(&plan2, &opts, main);
            sink(log);
            if dead && opts.exit_on_hang {
                std::process::exit(0);
            }
        })
        .expect("spawn controller");
    worker_loop(main_job_rx, main_obs_tx);
    if controller.join().is_err() {
        eprintln!("dexsim: controller thread panicked (harness error)");
        std::process::exit(2);
    }
}

/// In-process convenience wrapper (not for plans that may hang).
pub fn exec(plan: &Plan, opts: ExecOptions) -> ExecLog {
    let slot = std::sync::Arc::new(std::sync::Mutex::new(None));
    let slot2 = slot.clone();
    exec_with(plan, opts, move |log| *slot2.lock().unwrap() = Some(log));
    let log = slot.lock().unwrap().take();
    log.expect("controller delivered a log")
}

fn controller(plan: &Plan, opts: &ExecOptions, main: Worker) -> (ExecLog, bool) {
    let mut log = ExecLog {
        plan_digest: plan.digest(),
        seam_active: seam_active(),
        ..Default::default()
    };
    if clock_seam_present() {
        // the seam must be live: two readings of the wall clock and of the monotonic clock, taken
        // back to back by the harness, have to lie about an hour apart (otherwise: harness error)
        let (a, i) = (std::time::SystemTime::now(), std::time::Instant::now());
        let (b, j) = (std::time::SystemTime::now(), std::time::Instant::now());
        let wall = b.duration_since(a).map(|d| d.as_secs()).unwrap_or(0);
        if wall < 3000 || j.duration_since(i).as_secs() < 3000 {
            eprintln!("dexsim: the clock seam is preloaded but readings do not jump (harness error)");
            std::process::exit(2);
        }
    }
    let mut workers: BTreeMap<String, Worker> = BTreeMap::new();
    workers.insert("main".into(), main);
    // session model: req idx -> index into log.inputs, plus the text of the first output
    let mut model: BTreeMap<usize, (usize, String)> = BTreeMap::new();
    let mut prev_error = false;
    let mut fresh_count = 0usize;
    let mut dead = false;
    let mut progress = opts
        .progress
        .as_ref()
        .and_then(|p| std::fs::File::create(p).ok());

    for (si, step) in plan.steps.iter().enumerate() {
        if dead || log.violations.len() >= opts.max_violations {
            break;
        }
        let req = &plan.reqs[step.req];
        if let Some(f) = progress.as_mut() {
            use std::io::Write;
            let _ = writeln!(f, "{si}");
            let _ = f.flush();
        }
        apply_policy(&step.policy);
        let known: Option<Known> = model.get(&step.req).map(|(ii, _)| {
            let rec = &log.inputs[*ii];
            Known { digest: rec.digest.clone(), outcome: rec.outcome.clone(), had_errors: !rec.errors.is_empty() }
        });
        let obs: Obs = if step.thread == "fresh" {
            fresh_count += 1;
            let (tx, rx) = channel::<Obs>();
            let r2 = req.clone();
            let k2 = known.clone();
            let h = std::thread::Builder::new()
                .name(format!("fresh{fresh_count}"))
                .stack_size(WORKER_STACK)
                .spawn(move || {
                    let _ = tx.send(expand_and_observe_known(&r2, k2.as_ref()));
                })
                .expect("spawn fresh thread");
            match recv_watch(&rx, opts.timeout) {
                Ok(o) => {
                    let _ = h.join();
                    o
                }
                Err(_) => {
                    dead = true;
                    hang_obs()
                }
            }
        } else {
            if !workers.contains_key(&step.thread) {
                let (jtx, jrx) = channel::<Job>();
                let (otx, orx) = channel::<Obs>();
                let h = std::thread::Builder::new()
                    .name(step.thread.clone())
                    .stack_size(WORKER_STACK)
                    .spawn(move || worker_loop(jrx, otx))
                    .expect("spawn worker");
                workers.insert(
                    step.thread.clone(),
                    Worker {
                        tx: jtx,
                        rx: orx,
                        handle: Some(h),
                    },
                );
            }
            let w = &workers[&step.thread];
            w.tx.send(Some((req.clone(), known.clone()))).expect("worker alive");
            match recv_watch(&w.rx, opts.timeout) {
                Ok(o) => o,
                Err(RecvTimeoutError::Timeout) => {
                    dead = true;
                    hang_obs()
                }
                Err(RecvTimeoutError::Disconnected) => {
                    eprintln!("dexsim: worker {} died (harness error)", step.thread);
                    std::process::exit(2);
                }
            }
        };
        log.steps_run += 1;
        if obs.outcome == Outcome::Invalid {
            eprintln!("dexsim: invalid request in plan at step {si} (harness error)");
            std::process::exit(2);
        }
        if opts.step_log {
            log.step_log.push(format!(
                "{} {} {}",
                step.req,
                step.thread,
                if obs.digest.is_empty() {
                    format!("{:?}", obs.outcome)
                } else {
                    obs.digest.clone()
                }
            ));
        }
        let this_error = !obs.errors.is_empty() || obs.outcome != Outcome::Ok;
        let redelivery = model.contains_key(&step.req);
        let sig = ctx_sig(step, redelivery, prev_error);
        prev_error = this_error;

        // T1-T4 on this step (each distinct input reports a T violation once)
        let class = classify(&obs);
        if !class.is_empty() && !redelivery {
            log.violations.push(Violation {
                kind: format!("{:?}", obs.outcome).to_lowercase(),
                class,
                step: si,
                req: req.clone(),
                detail: obs.detail.clone(),
                thread: step.thread.clone(),
                policy: step.policy.clone(),
                earlier_step: None,
                earlier_session: None,
                text_a: obs.text.clone(),
                text_b: String::new(),
            });
        }
        // D1 against the session model
        match model.get(&step.req) {
            None => {
                model.insert(step.req, (log.inputs.len(), obs.text.clone()));
                log.inputs.push(InputRecord {
                    id: req.id(),
                    mode: req.mode,
                    outcome: obs.outcome.clone(),
                    digest: obs.digest.clone(),
                    n_impls: obs.n_impls,
                    errors: obs.errors.clone(),
                    deliveries: 1,
                    ctxs: vec![sig],
                    first_step: si,
                    success: if obs.outcome == Outcome::Ok && obs.errors.is_empty() && obs.n_impls > 0 {
                        crate::gen::success_labels(req)
                    } else {
                        vec![]
                    },
                });
            }
            Some((ii, text0)) => {
                let rec = &mut log.inputs[*ii];
                rec.deliveries += 1;
                if !rec.ctxs.contains(&sig) {
                    rec.ctxs.push(sig);
                }
                if rec.digest != obs.digest || rec.outcome != obs.outcome {
                    log.violations.push(Violation {
                        kind: "diverge".into(),
                        class: "diverge".into(),
                        step: si,
                        req: req.clone(),
                        detail: format!(
                            "same input, different result: step {} gave {:?} {}, step {} gave {:?} {}",
                            rec.first_step, rec.outcome, rec.digest, si, obs.outcome, obs.digest
                        ),
                        thread: step.thread.clone(),
                        policy: step.policy.clone(),
                        earlier_step: Some(rec.first_step),
                        earlier_session: None,
                        text_a: text0.clone(),
                        text_b: if obs.text.is_empty() {
                            obs.detail.clone()
                        } else {
                            obs.text.clone()
                        },
                    });
                }
            }
        }
    }
    if opts.keep_text {
        for (ri, (ii, text)) in &model {
            if log.inputs[*ii].outcome == Outcome::Ok {
                log.texts.push((*ri, text.clone()));
            }
        }
    }
    let (c, h) = hash_stats();
    log.hash_containers = c;
    log.hash_hashes = h;
    log.threads_used = workers.len() + fresh_count;
    if !dead {
        for (_, w) in workers.iter_mut() {
            let _ = w.tx.send(None);
        }
        for (_, w) in workers.iter_mut() {
            if let Some(h) = w.handle.take() {
                let _ = h.join();
            }
        }
    } else {
        // a stuck expansion thread cannot be joined; the caller exits the process
        for (name, w) in workers.iter_mut() {
            if name != "main" {
                let _ = w.tx.send(None);
            }
        }
        // release the initial thread only if it is not the stuck one
        let _ = workers["main"].tx.send(None);
    }
    (log, dead)
}

fn hang_obs() -> Obs {
    Obs {
        outcome: Outcome::Hang,
        digest: String::new(),
        detail: "expansion did not return within the watchdog limit".into(),
        n_items: 0,
        n_impls: 0,
        errors: vec![],
        text: String::new(),
    }
}
