//! An explicit schedule: the request table and, per step, who expands what under which hash
//! policy. A session is `plan(seed)` followed by `exec(plan)`; a replay file *is* a plan, so
//! replay never depends on the generator.

use crate::req::{digest, Request};
use serde::{Deserialize, Serialize};

#[derive(Clone, Debug, Eq, PartialEq, Serialize, Deserialize)]
#[serde(tag = "kind", rename_all = "lowercase")]
pub enum Policy {
    /// every container created during the step uses exactly this key
    Keyed { k0: u64, k1: u64 },
    /// like `RandomState`: key k0+i for the i-th container created from this step on
    Counting { k0: u64, k1: u64 },
    /// every value collides
    Degenerate,
    /// real `RandomState` (keys from the OS; only reproducible under Miri or the getrandom shim)
    Os,
    /// leave whatever the previous step set
    Keep,
}

#[derive(Clone, Debug, Serialize, Deserialize)]
pub struct Step {
    /// index into `Plan::reqs`
    pub req: usize,
    /// "main" (the process's initial thread), "w0".."w7" (persistent workers), "fresh"
    pub thread: String,
    pub policy: Policy,
    /// schedule kinds that produced this step (labels for the evidence; not used by exec)
    #[serde(default)]
    pub kinds: Vec<String>,
}

/// The clock seam a plan is executed under (`clockwarp.so`): every reading of a clock returns
/// the real value plus `base_ns` plus `step_ns` per reading made so far.
#[derive(Clone, Debug, Eq, PartialEq, Serialize, Deserialize)]
pub struct ClockWarp {
    pub base_ns: i128,
    pub step_ns: i128,
}

#[derive(Clone, Debug, Default, Serialize, Deserialize)]
pub struct Plan {
    pub reqs: Vec<Request>,
    pub steps: Vec<Step>,
    /// None: the real clock
    #[serde(default, skip_serializing_if = "Option::is_none")]
    pub clock: Option<ClockWarp>,
    /// None: the bare process (empty environment, dexsim's own argv). Some(k): the process wears
    /// host mask k (`apply_host_mask`).
    #[serde(default, skip_serializing_if = "Option::is_none")]
    pub host: Option<u8>,
}

pub const HOST_MASKS: u8 = 4;

/// Host masks: the process that executes a plan is made to look, from the inside, like one of the
/// hosts an expander really runs in (argv[0], further arguments, environment). The expander must
/// not care: the same request has to give the same tokens in a bare process, under `rustc` driven
/// by cargo, inside rust-analyzer's proc-macro server, and in a process with hostile argv / env.
/// dexsim ignores positional and unknown arguments, so the extra ones are inert for the harness.
pub fn apply_host_mask(cmd: &mut std::process::Command, mask: u8) {
    use std::ffi::OsStr;
    use std::os::unix::ffi::OsStrExt;
    use std::os::unix::process::CommandExt;
    match mask % HOST_MASKS {
        0 => {}
        1 => {
            cmd.arg0("/home/u/.rustup/toolchains/stable-x86_64-unknown-linux-gnu/bin/rustc");
            cmd.args([
                "--host-args", "-", "x", "--crate-type", "lib", "--edition=2021", "src/lib.rs", "--extern",
                "derive_ex=/home/u/x/target/debug/deps/libderive_ex-0123456789abcdef.so", "-C", "debuginfo=2",
            ]);
            for (k, v) in [
                // identity of the host only: nothing that describes the crate being built (manifest
                // directory, package name, OUT_DIR), which a macro may legitimately consult
                ("CARGO", "/home/u/.cargo/bin/cargo"), ("RUSTC", "rustc"), ("RUSTUP_TOOLCHAIN", "stable-x86_64-unknown-linux-gnu"),
                ("HOME", "/home/u"), ("USER", "u"), ("PATH", "/usr/bin:/bin"), ("LANG", "en_US.UTF-8"), ("TERM", "xterm-256color"),
            ] {
                cmd.env(k, v);
            }
        }
        2 => {
            cmd.arg0("/home/u/.vscode/extensions/rust-lang.rust-analyzer-0.3.2000-linux-x64/server/rust-analyzer");
            cmd.args(["--host-args", "-", "proc-macro"]);
            for (k, v) in [
                ("RUST_ANALYZER_INTERNALS_DO_NOT_USE", "this is unstable"), ("RA_LOG", "error"), ("HOME", "/home/u"),
                ("PATH", "/usr/bin:/bin"), ("LANG", "C"), ("VSCODE_PID", "4242"), ("ELECTRON_RUN_AS_NODE", "1"),
            ] {
                cmd.env(k, v);
            }
        }
        _ => {
            // hostile but legal: names and values that are not UTF-8, an empty and a very long argument
            cmd.arg0(OsStr::from_bytes(b"/tmp/\xff\xfe dir/ho\xc3st"));
            cmd.arg("--host-args").arg("-").arg(OsStr::from_bytes(b"\xff\xfe")).arg("").arg("a".repeat(65536)).arg("--").arg("-");
            cmd.env(OsStr::from_bytes(b"X\xff"), OsStr::from_bytes(b"\xfe\xff"));
            cmd.env("EMPTY", "").env("LANG", "xx_XX.bogus").env("HOME", "").env("PATH", "");
        }
    }
}

impl Plan {
    /// Digest of every decision in the plan (requests, order, threads, keys).
    pub fn digest(&self) -> String {
        let mut s = String::new();
        for r in &self.reqs {
            s.push_str(&r.id());
            s.push('\n');
        }
        for st in &self.steps {
            s.push_str(&format!("{} {} {:?}\n", st.req, st.thread, st.policy));
        }
        digest(&s)
    }
    pub fn single(req: Request) -> Self {
        Plan {
            reqs: vec![req],
            steps: vec![Step {
                req: 0,
                thread: "main".into(),
                policy: Policy::Keep,
                kinds: vec![],
            }],
            clock: None,
            host: None,
        }
    }
    /// Drops requests no step refers to and renumbers.
    pub fn compact(&mut self) {
        let mut map = vec![usize::MAX; self.reqs.len()];
        let mut reqs = Vec::new();
        for st in &mut self.steps {
            if map[st.req] == usize::MAX {
                map[st.req] = reqs.len();
                reqs.push(self.reqs[st.req].clone());
            }
            st.req = map[st.req];
        }
        self.reqs = reqs;
    }
}
