//! An explicit schedule: the request table and, per step, who expands what under which hash
//! policy. A session is `plan(seed)` followed by `exec(plan)`; a replay file *is* a plan, so
//! replay never depends on the generator.

use crate::req::{digest, Request};
use serde::{Deserialize, Serialize};

#[derive(Clone, Debug, Eq, PartialEq, Serialize, Deserialize)]
#[serde(tag = "kind", rename_all = "lowercase")]
pub enum Policy {
    /// every container created during the step uses exactly this key
    Keyed { k0: u64, k1: u64 },
    /// like `RandomState`: key k0+i for the i-th container created from this step on
    Counting { k0: u64, k1: u64 },
    /// every value collides
    Degenerate,
    /// real `RandomState` (keys from the OS; only reproducible under Miri or the getrandom shim)
    Os,
    /// leave whatever the previous step set
    Keep,
}

#[derive(Clone, Debug, Serialize, Deserialize)]
pub struct Step {
    /// index into `Plan::reqs`
    pub req: usize,
    /// "main" (the process's initial thread), "w0".."w7" (persistent workers), "fresh"
    pub thread: String,
    pub policy: Policy,
    /// schedule kinds that produced this step (labels for the evidence; not used by exec)
    #[serde(default)]
    pub kinds: Vec<String>,
}

/// The clock seam a plan is executed under (`clockwarp.so`): every reading of a clock returns
/// the real value plus `base_ns` plus `step_ns` per reading made so far.
#[derive(Clone, Debug, Eq, PartialEq, Serialize, Deserialize)]
pub struct ClockWarp {
    pub base_ns: i128,
    pub step_ns: i128,
}

#[derive(Clone, Debug, Default, Serialize, Deserialize)]
pub struct Plan {
    pub reqs: Vec<Request>,
    pub steps: Vec<Step>,
    /// None: the real clock
    #[serde(default, skip_serializing_if = "Option::is_none")]
    pub clock: Option<ClockWarp>,
}

impl Plan {
    /// Digest of every decision in the plan (requests, order, threads, keys).
    pub fn digest(&self) -> String {
        let mut s = String::new();
        for r in &self.reqs {
            s.push_str(&r.id());
            s.push('\n');
        }
        for st in &self.steps {
            s.push_str(&format!("{} {} {:?}\n", st.req, st.thread, st.policy));
        }
        digest(&s)
    }
    pub fn single(req: Request) -> Self {
        Plan {
            reqs: vec![req],
            steps: vec![Step {
                req: 0,
                thread: "main".into(),
                policy: Policy::Keep,
                kinds: vec![],
            }],
            clock: None,
        }
    }
    /// Drops requests no step refers to and renumbers.
    pub fn compact(&mut self) {
        let mut map = vec![usize::MAX; self.reqs.len()];
        let mut reqs = Vec::new();
        for st in &mut self.steps {
            if map[st.req] == usize::MAX {
                map[st.req] = reqs.len();
                reqs.push(self.reqs[st.req].clone());
            }
            st.req = map[st.req];
        }
        self.reqs = reqs;
    }
}
