//! The driver: extracts the corpus, runs sessions as child processes (one process lifetime
//! each, empty environment), merges their histories in session-index order, checks
//! single-valuedness across processes (D2), deduplicates violations by class, has one
//! representative per class minimised, writes replay files and verifies that they replay.

use crate::corpus::{self, Corpus};
use crate::directed::directed;
use crate::exec::{ExecLog, Violation};
use crate::gen::Pool;
use crate::plan::Plan;
use crate::req::{digest, Request};
use crate::session::{plan_session, SessionParams, SessionResult, KINDS};
use serde::{Deserialize, Serialize};
use std::collections::{BTreeMap, BTreeSet};
use std::path::{Path, PathBuf};
use std::process::{Child, Command, Stdio};
use std::time::{Duration, Instant};

#[derive(Clone, Debug)]
pub struct DriveOpts {
    pub repo: PathBuf,
    pub out: PathBuf,
    pub replays: PathBuf,
    pub seed: u64,
    pub sessions: u64,
    pub first_session: u64,
    pub mutants: u64,
    pub min_steps: usize,
    pub max_steps: usize,
    pub jobs: usize,
    pub step_log: bool,
    pub max_classes: usize,
    pub session_timeout_s: u64,
    /// rustc binary used to confirm violations (premise + ill-formedness); None = no confirmation
    pub rustc: Option<PathBuf>,
    /// per-expansion watchdog inside sessions (seconds); a hang is only reported after it has
    /// been confirmed by a fresh-process replay with the full 30 s limit
    pub watchdog_s: u64,
    /// number of sweep sessions: together they deliver every corpus item and directed seed
    /// (twice each, under two contexts), so systematic seeds never depend on sampling
    pub sweep: u64,
    /// number of marathon sessions (70k..80k requests each)
    pub marathon: u64,
    /// number of name-flood sessions (pairs: flood -> victims / victims -> flood -> victims)
    pub flood: u64,
    /// number of ordinary sessions that are run a second time under the clock seam
    pub warp: u64,
    /// number of entry-pure long sessions (derive-only / attribute-on-types-only / impl-only)
    pub pure: u64,
    pub pure_factor: u64,
    /// number of pressure sessions (thread churn / cache pressure / error storm)
    pub pressure: u64,
    /// the LD_PRELOAD library of the clock seam
    pub warp_lib: Option<PathBuf>,
    /// the sweep sessions and the first N ordinary sessions also write (request, output) pairs
    /// to <out>/dump/<idx>.jsonl for the rustc-parser engine
    pub dump_sessions: u64,
}

#[derive(Clone, Debug, Serialize, Deserialize)]
pub struct ReplayFile {
    pub property: String,
    pub class: String,
    pub kind: String,
    pub detail: String,
    pub engine: String,
    pub root_seed: u64,
    pub session_idx: u64,
    pub original_step: usize,
    pub original_steps_in_session: usize,
    pub minimisation_trials: usize,
    pub reproducible: bool,
    pub plan: Plan,
    /// divergence across processes: the other process's schedule; `replay` runs `plan` and
    /// `plan_b` in two fresh processes and compares the outputs of their last steps
    #[serde(default)]
    pub plan_b: Option<Plan>,
    /// printed macro input of the violating request, for humans
    pub input: String,
    #[serde(default)]
    pub output_a: String,
    #[serde(default)]
    pub output_b: String,
    #[serde(default)]
    pub notes: Vec<String>,
}

#[derive(Clone, Debug, Default, Serialize, Deserialize)]
pub struct DriveSummary {
    pub seed: u64,
    pub sessions: u64,
    pub sessions_completed: u64,
    pub requests: u64,
    pub distinct_inputs: u64,
    /// distinct inputs observed under >= 2 distinct contexts whose expansion produced >= 1 impl
    pub distinct_nontrivial: u64,
    pub distinct_inputs_multi_process: u64,
    pub distinct_input_context_pairs: u64,
    pub distinct_schedules: u64,
    pub fired: BTreeMap<String, u64>,
    pub mutation_ops: BTreeMap<String, u64>,
    pub outcomes: BTreeMap<String, u64>,
    pub hash_containers: u64,
    pub hash_hashes: u64,
    pub seam_active: bool,
    pub threads_used: u64,
    pub corpus_items: usize,
    pub directed_items: usize,
    pub corpus_files: usize,
    pub doc_blocks: usize,
    pub doc_blocks_unparsed: usize,
    pub error_sites_total: usize,
    pub error_sites_hit: Vec<String>,
    pub error_sites_missed: Vec<String>,
    pub dependency_messages: u64,
    /// trait x item-kind x entry-point combinations that expanded without an error
    pub success_matrix_hit: usize,
    pub success_matrix_missed: Vec<String>,
    pub violations_raw: u64,
    pub classes: Vec<ClassReport>,
    /// classes rustc's parser did not confirm (input outside the premise, or syn and rustc
    /// disagree about the output): not violations
    pub unconfirmed: Vec<ClassReport>,
    pub rustc_calls: usize,
    pub samples: Vec<serde_json::Value>,
    pub wall_s: f64,
    pub session_wall_s_total: f64,
    /// sessions run under the clock seam, and the clock readings the seam counted in them
    #[serde(default)]
    pub warp_sessions: u64,
    #[serde(default)]
    pub warp_clock_readings: u64,
    /// ... of which while a thread was inside an expansion
    #[serde(default)]
    pub warp_clock_readings_in_expansion: u64,
    pub harness_errors: Vec<String>,
    pub plan_digests: Vec<String>,
    pub step_log_digest: String,
}

#[derive(Clone, Debug, Default, Serialize, Deserialize)]
pub struct ClassReport {
    pub class: String,
    pub kind: String,
    pub occurrences: u64,
    pub replay: String,
    pub reproducible: bool,
    pub input: String,
    pub detail: String,
    pub steps: usize,
}

fn spawn_session(exe: &Path, o: &DriveOpts, idx: u64) -> std::io::Result<Child> {
    let mut c = Command::new(exe);
    c.arg("session")
        .arg("--corpus")
        .arg(o.out.join("corpus.json"))
        .arg("--directed")
        .arg(o.out.join("directed.json"))
        .arg("--root")
        .arg(o.seed.to_string())
        .arg("--idx")
        .arg(idx.to_string())
        .arg("--mutants")
        .arg(o.mutants.to_string())
        .arg("--min-steps")
        .arg(o.min_steps.to_string())
        .arg("--max-steps")
        .arg(o.max_steps.to_string())
        .arg("--out")
        .arg(o.out.join("sessions").join(format!("{idx}.json")))
        .arg("--timeout")
        .arg(o.watchdog_s.to_string())
        .arg("--sweep-n")
        .arg(o.sweep.to_string())
        .arg("--pure-factor")
        .arg(o.pure_factor.to_string());
    if o.step_log {
        c.arg("--step-log");
    }
    if o.dump_sessions > 0 && (idx >= crate::session::SWEEP_BASE || idx < o.first_session + o.dump_sessions) {
        c.arg("--dump").arg(o.out.join("dump").join(format!("{idx}.jsonl")));
    }
    c.env_clear()
        .current_dir(&o.out)
        .stdin(Stdio::null())
        .stdout(Stdio::null())
        .stderr(Stdio::inherit());
    if idx >= crate::session::WARP_BASE && idx < crate::session::FLOOD_BASE {
        if let Some(lib) = &o.warp_lib {
            // skew: up to ten years; jump: one hour per reading. The per-step watchdog reads the
            // real clock with a raw system call (exec::recv_watch), so it keeps working.
            let w = crate::session::clock_of(idx);
            c.env("LD_PRELOAD", lib)
                .env("DEXSIM_CLOCK_BASE_NS", w.base_ns.to_string())
                .env("DEXSIM_CLOCK_STEP_NS", w.step_ns.to_string())
                .env("DEXSIM_CLOCK_REPORT", o.out.join("sessions").join(format!("{idx}.clock.json")));
        }
        // ... and wear a host mask (argv[0], arguments and environment of a real host)
        crate::plan::apply_host_mask(&mut c, crate::session::host_of(idx));
        // the same sessions also run with stdout and stderr that accept no byte (/dev/full): an
        // expander that prints (a debugging `eprintln!`) must not turn that into a panic
        if let Ok(full) = std::fs::OpenOptions::new().write(true).open("/dev/full") {
            if let Ok(full2) = full.try_clone() {
                c.stdout(full).stderr(full2);
            }
        }
    }
    c.spawn()
}

pub fn load_pool_inputs(repo: &Path) -> Result<(Corpus, Vec<Request>), String> {
    let corpus = corpus::extract(repo)?;
    Ok((corpus, directed()))
}

pub fn drive(o: &DriveOpts) -> Result<DriveSummary, String> {
    let t0 = Instant::now();
    std::fs::create_dir_all(o.out.join("sessions")).map_err(|e| e.to_string())?;
    std::fs::create_dir_all(o.out.join("dump")).map_err(|e| e.to_string())?;
    std::fs::create_dir_all(&o.replays).map_err(|e| e.to_string())?;
    let exe = std::env::current_exe().map_err(|e| e.to_string())?;
    let (corpus, dir) = load_pool_inputs(&o.repo)?;
    std::fs::write(
        o.out.join("corpus.json"),
        serde_json::to_string(&corpus).map_err(|e| e.to_string())?,
    )
    .map_err(|e| e.to_string())?;
    std::fs::write(
        o.out.join("directed.json"),
        serde_json::to_string(&dir).map_err(|e| e.to_string())?,
    )
    .map_err(|e| e.to_string())?;
    let pool = Pool {
        corpus: &corpus,
        directed: &dir,
    };

    let mut sum = DriveSummary {
        seed: o.seed,
        sessions: o.sessions,
        corpus_items: corpus.entries.len(),
        directed_items: dir.len(),
        corpus_files: corpus.files_read,
        doc_blocks: corpus.doc_blocks,
        doc_blocks_unparsed: corpus.doc_blocks_unparsed,
        error_sites_total: corpus.error_sites.len(),
        ..Default::default()
    };

    // ---- run sessions, at most `jobs` at a time; results are merged in index order afterwards
    let mut running: Vec<(u64, Child, Instant)> = Vec::new();
    // longest first, so that the marathon sessions overlap with everything else
    let ids: Vec<u64> = (0..o.marathon)
        .map(|k| crate::session::MARATHON_BASE + k)
        .chain((0..o.pure).map(|k| crate::session::PURE_BASE + k))
        .chain((0..o.pressure).map(|k| crate::session::PRESSURE_BASE + k))
        .chain((0..o.sweep).map(|k| crate::session::SWEEP_BASE + k))
        .chain((0..o.flood).map(|k| crate::session::FLOOD_BASE + k))
        .chain((0..if o.warp_lib.is_some() { o.warp } else { 0 }).map(|k| crate::session::WARP_BASE + o.first_session + k))
        .chain(o.first_session..o.first_session + o.sessions)
        .collect();
    let mut next = 0usize;
    let mut crashed: Vec<(u64, String)> = Vec::new();
    while next < ids.len() || !running.is_empty() {
        while next < ids.len() && running.len() < o.jobs {
            let c = spawn_session(&exe, o, ids[next]).map_err(|e| format!("spawn session: {e}"))?;
            running.push((ids[next], c, Instant::now()));
            next += 1;
        }
        let mut k = 0;
        let mut any = false;
        while k < running.len() {
            let done = match running[k].1.try_wait() {
                Ok(Some(st)) => {
                    if !st.success() {
                        crashed.push((running[k].0, format!("{st}")));
                    }
                    true
                }
                Ok(None) => {
                    if running[k].2.elapsed() > Duration::from_secs(o.session_timeout_s) {
                        let _ = running[k].1.kill();
                        let _ = running[k].1.wait();
                        crashed.push((running[k].0, "session wall-clock limit".into()));
                        true
                    } else {
                        false
                    }
                }
                Err(e) => {
                    crashed.push((running[k].0, format!("wait: {e}")));
                    true
                }
            };
            if done {
                sum.session_wall_s_total += running[k].2.elapsed().as_secs_f64();
                running.swap_remove(k);
                any = true;
            } else {
                k += 1;
            }
        }
        if !any {
            std::thread::sleep(Duration::from_millis(2));
        }
    }

    // ---- merge in session-index order
    struct Seen {
        digest: String,
        outcome: String,
        session: u64,
        first_step: usize,
        sessions: u32,
        ctxs: BTreeSet<String>,
        n_impls: usize,
    }
    let mut model: BTreeMap<String, Seen> = BTreeMap::new();
    let mut raw: Vec<(u64, Violation, usize)> = Vec::new(); // (session idx, violation, steps in session)
    let mut schedules: BTreeSet<String> = BTreeSet::new();
    let mut messages: BTreeMap<String, u64> = BTreeMap::new();
    let mut success: BTreeSet<String> = BTreeSet::new();
    let mut step_log_all = String::new();
    crashed.sort();
    for idx in ids.iter().copied() {
        let path = o.out.join("sessions").join(format!("{idx}.json"));
        let text = match std::fs::read_to_string(&path) {
            Ok(t) => t,
            Err(_) => {
                let why = crashed
                    .iter()
                    .find(|c| c.0 == idx)
                    .map(|c| c.1.clone())
                    .unwrap_or_else(|| "no result file".into());
                // a session that died without a log: find the culprit by re-running it with a
                // progress trace and replaying the last request alone
                match attribute_crash(&exe, o, idx, &pool) {
                    Some(v) => {
                        // a hang met under the clock seam is reported against the ordinary session
                        // with the same plan: its replay needs a watchdog that works
                        let warp = idx >= crate::session::WARP_BASE && idx < crate::session::FLOOD_BASE;
                        let at = if warp && v.0.kind == "hang" { idx - crate::session::WARP_BASE } else { idx };
                        raw.push((at, v.0, v.1))
                    }
                    None => sum.harness_errors.push(format!("session {idx} died ({why}) and the crash could not be attributed to a single request")),
                }
                continue;
            }
        };
        let res: SessionResult = match serde_json::from_str(&text) {
            Ok(r) => r,
            Err(e) => {
                sum.harness_errors.push(format!("session {idx}: unreadable result: {e}"));
                continue;
            }
        };
        sum.sessions_completed += 1;
        if idx >= crate::session::WARP_BASE && idx < crate::session::FLOOD_BASE {
            sum.warp_sessions += 1;
            if let Ok(t) = std::fs::read_to_string(o.out.join("sessions").join(format!("{idx}.clock.json"))) {
                if let Ok(v) = serde_json::from_str::<serde_json::Value>(&t) {
                    sum.warp_clock_readings += v["clock_readings"].as_u64().unwrap_or(0);
                    sum.warp_clock_readings_in_expansion += v["clock_readings_in_expansion"].as_u64().unwrap_or(0);
                }
            }
        }
        sum.requests += res.log.steps_run as u64;
        sum.hash_containers += res.log.hash_containers;
        sum.hash_hashes += res.log.hash_hashes;
        sum.seam_active = res.log.seam_active;
        sum.threads_used += res.log.threads_used as u64;
        schedules.insert(res.log.plan_digest.clone());
        sum.plan_digests.push(res.log.plan_digest.clone());
        if o.step_log {
            step_log_all.push_str(&format!("S{idx}\n"));
            for l in &res.log.step_log {
                step_log_all.push_str(l);
                step_log_all.push('\n');
            }
        }
        for (k, v) in &res.meta.fired {
            *sum.fired.entry(k.clone()).or_default() += *v as u64;
        }
        for (k, v) in &res.meta.mutation_ops {
            *sum.mutation_ops.entry(k.clone()).or_default() += *v as u64;
        }
        for v in &res.log.violations {
            raw.push((idx, v.clone(), res.n_steps));
        }
        for inp in &res.log.inputs {
            let oc = format!("{:?}", inp.outcome).to_lowercase();
            for m in &inp.errors {
                *messages.entry(m.clone()).or_default() += 1;
            }
            for l in &inp.success {
                success.insert(l.clone());
            }
            match model.get_mut(&inp.id) {
                None => {
                    *sum.outcomes
                        .entry(if oc == "ok" && !inp.errors.is_empty() {
                            "ok-with-compile-error".into()
                        } else {
                            oc.clone()
                        })
                        .or_default() += 1;
                    model.insert(
                        inp.id.clone(),
                        Seen {
                            digest: inp.digest.clone(),
                            outcome: oc,
                            session: idx,
                            first_step: inp.first_step,
                            sessions: 1,
                            ctxs: inp.ctxs.iter().cloned().collect(),
                            n_impls: inp.n_impls,
                        },
                    );
                }
                Some(seen) => {
                    seen.sessions += 1;
                    seen.ctxs.extend(inp.ctxs.iter().cloned());
                    if seen.digest != inp.digest || seen.outcome != oc {
                        // D2: same input, another process, different answer
                        if let Some(v) = cross_session_violation(o, &pool, seen.session, seen.first_step, idx, inp.first_step) {
                            raw.push((idx, v, res.n_steps));
                        } else {
                            sum.harness_errors.push(format!(
                                "D2 mismatch for input {} between sessions {} and {} could not be reconstructed",
                                inp.id, seen.session, idx
                            ));
                        }
                    }
                }
            }
        }
        let _ = std::fs::remove_file(&path);
    }
    if sum.sessions_completed > 0 {
        sum.fired.insert("restart".into(), sum.sessions_completed - 1);
    }
    for k in KINDS {
        sum.fired.entry(k.to_string()).or_default();
    }
    sum.distinct_inputs = model.len() as u64;
    sum.distinct_schedules = schedules.len() as u64;
    for s in model.values() {
        sum.distinct_input_context_pairs += s.ctxs.len() as u64;
        if s.sessions >= 2 {
            sum.distinct_inputs_multi_process += 1;
        }
        if (s.ctxs.len() >= 2 || s.sessions >= 2) && s.n_impls >= 1 {
            sum.distinct_nontrivial += 1;
        }
    }
    if o.step_log {
        sum.step_log_digest = digest(&step_log_all);
        let _ = std::fs::write(o.out.join("step_log.txt"), &step_log_all);
    }

    // ---- reach probes
    let mut hit: BTreeSet<String> = BTreeSet::new();
    for (m, n) in &messages {
        let mut any = false;
        for s in &corpus.error_sites {
            if s.matches(m) {
                hit.insert(s.label());
                any = true;
            }
        }
        if !any {
            sum.dependency_messages += n;
        }
    }
    for s in &corpus.error_sites {
        if hit.contains(&s.label()) {
            sum.error_sites_hit.push(s.label());
        } else {
            sum.error_sites_missed.push(format!("{} {:?}", s.label(), s.pieces));
        }
    }
    // which trait x item kind x entry point combinations expanded successfully at least once
    for t in crate::gen::TRAITS {
        for mode in ["attr", "derive"] {
            let l = format!("{t}/struct/{mode}");
            if success.contains(&l) {
                sum.success_matrix_hit += 1;
            } else {
                sum.success_matrix_missed.push(l);
            }
            if ["Ord", "PartialOrd", "Eq", "PartialEq", "Hash", "Copy", "Clone", "Debug", "Default"].contains(t) {
                let l = format!("{t}/enum/{mode}");
                if success.contains(&l) {
                    sum.success_matrix_hit += 1;
                } else {
                    sum.success_matrix_missed.push(l);
                }
            }
        }
    }
    for t in &crate::gen::TRAITS[..20] {
        let l = format!("{t}/impl/attr");
        if success.contains(&l) {
            sum.success_matrix_hit += 1;
        } else {
            sum.success_matrix_missed.push(l);
        }
    }

    // ---- violations: dedupe by class, minimise one representative each
    sum.violations_raw = raw.len() as u64;
    let mut by_class: BTreeMap<String, Vec<(u64, Violation, usize)>> = BTreeMap::new();
    for r in raw {
        by_class.entry(r.1.class.clone()).or_default().push(r);
    }
    for (class, mut list) in by_class {
        if sum.classes.len() >= o.max_classes {
            sum.harness_errors.push(format!(
                "more than {} violation classes; the rest are not minimised",
                o.max_classes
            ));
            break;
        }
        list.sort_by_key(|(idx, v, _)| (v.req.attr.len() + v.req.item.len(), *idx, v.step));
        let occurrences = list.len() as u64;
        // confirmation by rustc's parser: the first occurrence (smallest first) that passes
        let mut chosen = None;
        let mut why = String::new();
        if let Some(rustc) = &o.rustc {
            let mut oracle = crate::rustc_oracle::RustcOracle::new(rustc, &o.out.join("tmp"));
            for (k, cand) in list.iter().enumerate().take(8) {
                let v = &cand.1;
                match oracle.input_ok(&v.req) {
                    Some(true) => {}
                    Some(false) => {
                        why = "rustc rejects the input: outside the property's premise".into();
                        continue;
                    }
                    None => {
                        sum.harness_errors.push("rustc could not be run for confirmation".into());
                        break;
                    }
                }
                if v.kind == "illformed" {
                    match oracle.output_ok(&v.text_a) {
                        Some((false, _)) => {}
                        Some((true, _)) => {
                            why = "syn rejects the output but rustc parses it: oracle disagreement".into();
                            continue;
                        }
                        None => {
                            sum.harness_errors.push("rustc could not be run for confirmation".into());
                            break;
                        }
                    }
                }
                chosen = Some(k);
                break;
            }
            sum.rustc_calls += oracle.calls;
        } else {
            chosen = Some(0);
        }
        match chosen {
            Some(k) => {
                let (idx, v, n_steps) = list.into_iter().nth(k).unwrap();
                let report = minimise_and_write(&exe, o, &pool, idx, &v, n_steps, occurrences, &class);
                if report.kind == "hang" && !report.reproducible {
                    // the short in-session watchdog fired but a fresh process finished within the
                    // full limit: a stalled machine, not a verdict
                    let mut r = report;
                    r.detail = format!("{} (not confirmed by the 30 s fresh-process replay)", r.detail);
                    let _ = std::fs::remove_file(&r.replay);
                    sum.unconfirmed.push(r);
                } else {
                    sum.classes.push(report);
                }
            }
            None => {
                let (_, v, _) = list.into_iter().next().unwrap();
                sum.unconfirmed.push(ClassReport {
                    class: class.clone(),
                    kind: v.kind.clone(),
                    occurrences,
                    replay: String::new(),
                    reproducible: false,
                    input: v.req.display(),
                    detail: format!("{} ({why})", v.detail),
                    steps: 0,
                });
            }
        }
    }

    // ---- samples for the evidence
    sum.samples = samples(o, &pool);
    sum.wall_s = t0.elapsed().as_secs_f64();
    Ok(sum)
}

fn session_params(o: &DriveOpts, idx: u64) -> SessionParams {
    SessionParams {
        root: o.seed,
        idx,
        mutants: o.mutants,
        min_steps: o.min_steps,
        max_steps: o.max_steps,
        sweep_n: o.sweep,
        pure_factor: o.pure_factor,
    }
}

fn cross_session_violation(
    o: &DriveOpts,
    pool: &Pool,
    s1: u64,
    step1: usize,
    s2: u64,
    step2: usize,
) -> Option<Violation> {
    let (p1, _) = plan_session(&session_params(o, s1), pool);
    let (p2, _) = plan_session(&session_params(o, s2), pool);
    let r1 = p1.reqs.get(p1.steps.get(step1)?.req)?.clone();
    let r2 = p2.reqs.get(p2.steps.get(step2)?.req)?.clone();
    if r1.id() != r2.id() {
        return None;
    }
    Some(Violation {
        kind: "diverge".into(),
        class: "diverge-across-processes".into(),
        step: step2,
        req: r2,
        detail: format!(
            "same input, different result in two processes: session {s1} step {step1} vs session {s2} step {step2}"
        ),
        thread: p2.steps[step2].thread.clone(),
        policy: p2.steps[step2].policy.clone(),
        earlier_step: Some(step1),
        earlier_session: Some(s1),
        text_a: String::new(),
        text_b: String::new(),
    })
}

/// Re-runs a session that died without writing a log, with a progress trace, and blames the
/// last request started if that request alone also kills a fresh process.
fn attribute_crash(exe: &Path, o: &DriveOpts, idx: u64, pool: &Pool) -> Option<(Violation, usize)> {
    let (plan, _) = plan_session(&session_params(o, idx), pool);
    let trace = o.out.join("sessions").join(format!("{idx}.progress"));
    let out = o.out.join("sessions").join(format!("{idx}.retry.json"));
    let mut c = Command::new(exe);
    c.arg("session")
        .arg("--corpus")
        .arg(o.out.join("corpus.json"))
        .arg("--directed")
        .arg(o.out.join("directed.json"))
        .arg("--root")
        .arg(o.seed.to_string())
        .arg("--idx")
        .arg(idx.to_string())
        .arg("--mutants")
        .arg(o.mutants.to_string())
        .arg("--min-steps")
        .arg(o.min_steps.to_string())
        .arg("--max-steps")
        .arg(o.max_steps.to_string())
        .arg("--out")
        .arg(&out)
        .arg("--progress")
        .arg(&trace)
        .arg("--sweep-n")
        .arg(o.sweep.to_string())
        .arg("--pure-factor")
        .arg(o.pure_factor.to_string())
        .env_clear()
        .current_dir(&o.out)
        .stdin(Stdio::null())
        .stdout(Stdio::null())
        .stderr(Stdio::null());
    let mut child = c.spawn().ok()?;
    let t = Instant::now();
    loop {
        match child.try_wait() {
            Ok(Some(_)) => break,
            Ok(None) => {
                if t.elapsed() > Duration::from_secs(o.session_timeout_s) {
                    let _ = child.kill();
                    let _ = child.wait();
                    break;
                }
                std::thread::sleep(Duration::from_millis(5));
            }
            Err(_) => return None,
        }
    }
    // the re-run has the real clock and so a working per-step watchdog (a session under the clock
    // seam has none): if it names a violation itself - a hang, typically - that is the attribution
    let retry: Option<SessionResult> = std::fs::read_to_string(&out).ok().and_then(|t| serde_json::from_str(&t).ok());
    let _ = std::fs::remove_file(&out);
    if let Some(res) = retry {
        if let Some(v) = res.log.violations.first() {
            let _ = std::fs::remove_file(&trace);
            return Some((v.clone(), res.n_steps));
        }
    }
    let progress = std::fs::read_to_string(&trace).ok()?;
    let _ = std::fs::remove_file(&trace);
    let last: usize = progress.lines().last()?.trim().parse().ok()?;
    let step = plan.steps.get(last)?;
    let req = plan.reqs[step.req].clone();
    // alone, in a fresh process
    let single = Plan::single(req.clone());
    let mut ctx = crate::minimise::Ctx::new(&o.out.join("tmp"), 10);
    let died = ctx.run_child(&single, 30).is_none();
    if !died {
        return None;
    }
    Some((
        Violation {
            kind: "crash".into(),
            class: "crash: expansion kills the process (abort, stack overflow or signal)".into(),
            step: last,
            req,
            detail: "the process died while expanding this request, and dies again when it is expanded alone in a fresh process".into(),
            thread: step.thread.clone(),
            policy: step.policy.clone(),
            earlier_step: None,
            earlier_session: None,
            text_a: String::new(),
            text_b: String::new(),
        },
        plan.steps.len(),
    ))
}

fn minimise_and_write(
    exe: &Path,
    o: &DriveOpts,
    pool: &Pool,
    idx: u64,
    v: &Violation,
    n_steps: usize,
    occurrences: u64,
    class: &str,
) -> ClassReport {
    let (plan, _) = plan_session(&session_params(o, idx), pool);
    // unminimised replay: the session prefix up to the violating step
    let mut prefix = Plan {
        reqs: plan.reqs.clone(),
        steps: plan.steps[..=v.step.min(plan.steps.len() - 1)].to_vec(),
        clock: plan.clock.clone(),
        host: plan.host,
    };
    prefix.compact();
    let mut rf = ReplayFile {
        property: "C16".into(),
        class: class.to_string(),
        kind: v.kind.clone(),
        detail: v.detail.clone(),
        engine: "N".into(),
        root_seed: o.seed,
        session_idx: idx,
        original_step: v.step,
        original_steps_in_session: n_steps,
        minimisation_trials: 0,
        reproducible: false,
        plan: prefix,
        plan_b: None,
        input: v.req.display(),
        output_a: v.text_a.clone(),
        output_b: v.text_b.clone(),
        notes: vec![],
    };
    let mut side_b: (Option<crate::plan::ClockWarp>, Option<u8>) = (None, None);
    if class == "diverge-across-processes" {
        // two processes are needed: this session's prefix and the other session's prefix
        if let (Some(s1), Some(step1)) = (v.earlier_session, v.earlier_step) {
            let (p1, _) = plan_session(&session_params(o, s1), pool);
            let mut b = Plan {
                reqs: p1.reqs.clone(),
                steps: p1.steps[..=step1.min(p1.steps.len() - 1)].to_vec(),
                clock: p1.clock.clone(),
                host: p1.host,
            };
            b.compact();
            side_b = (p1.clock.clone(), p1.host);
            rf.plan_b = Some(b);
        }
        rf.notes.push("cross-process divergence: `replay` executes `plan` and `plan_b` in two fresh processes and compares the outputs of their last steps".into());
        // cheap minimisation: the last request alone in both processes, if that still differs
        // (each in the situation - clock seam, host mask - of its own session)
        let mut single_a = Plan::single(v.req.clone());
        single_a.clock = plan.clock.clone();
        single_a.host = plan.host;
        let mut single_b = Plan::single(v.req.clone());
        single_b.clock = side_b.0.clone();
        single_b.host = side_b.1;
        let mut ctx = crate::minimise::Ctx::new(&o.out.join("tmp"), 10);
        if let (Some(a), Some(b)) = (ctx.run_child(&single_a, 30), ctx.run_child(&single_b, 30)) {
            if a.step_log != b.step_log {
                rf.plan = single_a;
                rf.plan_b = Some(single_b);
            }
        }
    }
    let name = format!("C16-{}-{}.json", v.kind, &digest(&format!("{class}{}", v.req.id()))[..12]);
    let path = o.replays.join(&name);
    let write = |rf: &ReplayFile| {
        let _ = std::fs::write(&path, serde_json::to_string_pretty(rf).unwrap_or_default());
    };
    write(&rf);
    // minimise in a child (bounded wall-clock), then verify the result replays
    let min_out = o.out.join("tmp").join(format!("{name}.min"));
    std::fs::create_dir_all(o.out.join("tmp")).ok();
    let pair_is_single = rf.plan_b.as_ref().map(|b| b.steps.len() == 1 && rf.plan.steps.len() == 1).unwrap_or(false);
    if !(class == "diverge-across-processes" && (pair_is_single || rf.plan_b.is_none())) {
        let mut child = Command::new(exe)
            .arg("minimise")
            .arg("--replay")
            .arg(&path)
            .arg("--out")
            .arg(&min_out)
            .arg("--tmp")
            .arg(o.out.join("tmp"))
            .args(match &o.rustc {
                Some(r) => vec!["--rustc".to_string(), r.display().to_string()],
                None => vec![],
            })
            .env_clear()
            .stdin(Stdio::null())
            .stdout(Stdio::null())
            .stderr(Stdio::null())
            .spawn()
            .ok();
        // long schedules (pressure, flood, entry-pure sessions): every trial replays thousands of
        // steps, so the budget buys little - keep it short and report the prefix as it is
        let budget_s = if rf.plan.steps.len() > 3000 { 120 } else { 300 };
        if let Some(ch) = child.as_mut() {
            let t = Instant::now();
            loop {
                match ch.try_wait() {
                    Ok(Some(_)) => break,
                    Ok(None) => {
                        if t.elapsed() > Duration::from_secs(budget_s) {
                            let _ = ch.kill();
                            let _ = ch.wait();
                            rf.notes.push("minimiser exceeded its wall-clock budget; unminimised prefix kept".into());
                            break;
                        }
                        std::thread::sleep(Duration::from_millis(10));
                    }
                    Err(_) => break,
                }
            }
        }
        if let Ok(text) = std::fs::read_to_string(&min_out) {
            if let Ok(m) = serde_json::from_str::<ReplayFile>(&text) {
                rf = m;
            }
        }
        let _ = std::fs::remove_file(&min_out);
    }
    // verify: replay in a fresh process must report the same class
    let ok = Command::new(exe)
        .arg("replay")
        .arg("--file")
        .arg(&path_tmp_write(&path, &rf))
        .arg("--quiet")
        .env_clear()
        .stdin(Stdio::null())
        .stdout(Stdio::null())
        .stderr(Stdio::null())
        .status()
        .map(|s| s.code() == Some(1))
        .unwrap_or(false);
    rf.reproducible = ok;
    if !ok {
        rf.notes.push("replay in a fresh process did not reproduce the violation; the two observed outputs are embedded as proof".into());
    }
    write(&rf);
    let last = rf.plan.steps.last().map(|s| rf.plan.reqs[s.req].display()).unwrap_or_default();
    ClassReport {
        class: class.to_string(),
        kind: rf.kind.clone(),
        occurrences,
        replay: path.display().to_string(),
        reproducible: ok,
        input: last,
        detail: rf.detail.clone(),
        steps: rf.plan.steps.len(),
    }
}

fn path_tmp_write(path: &Path, rf: &ReplayFile) -> PathBuf {
    let _ = std::fs::write(path, serde_json::to_string_pretty(rf).unwrap_or_default());
    path.to_path_buf()
}

fn samples(o: &DriveOpts, pool: &Pool) -> Vec<serde_json::Value> {
    // one whole short schedule (the first 12 steps of the first session) and a few requests
    let (plan, meta) = plan_session(&session_params(o, o.first_session), pool);
    let mut out = Vec::new();
    let steps: Vec<serde_json::Value> = plan
        .steps
        .iter()
        .take(12)
        .map(|s| {
            serde_json::json!({
                "input": plan.reqs[s.req].display().chars().take(240).collect::<String>(),
                "thread": s.thread,
                "policy": s.policy,
                "kinds": s.kinds,
            })
        })
        .collect();
    out.push(serde_json::json!({
        "what": "first 12 steps of the first session's schedule",
        "session": o.first_session,
        "enabled_kinds": meta.enabled,
        "key_policy": meta.key_policy,
        "workers": meta.workers,
        "working_set": meta.working_set,
        "length": meta.length,
        "steps": steps,
    }));
    for m in 0..3u64 {
        let (r, ops) = crate::gen::gen_input(o.seed, m, pool);
        out.push(serde_json::json!({
            "what": "generated input",
            "index": m,
            "mutation_ops": ops,
            "input": r.display().chars().take(400).collect::<String>(),
        }));
    }
    out
}

pub fn read_log(path: &Path) -> Option<ExecLog> {
    serde_json::from_str(&std::fs::read_to_string(path).ok()?).ok()
}
