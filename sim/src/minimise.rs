//! Minimisation: shrink the schedule (drop steps, collapse threads and keys) and the input
//! (hierarchical delta debugging over token trees, validity-filtered) while the same violation
//! class persists. Trials that need a fresh process lifetime run `dexsim exec-plan` as a child.

use crate::exec::{classify, expand_and_observe, ExecLog};
use crate::gen::is_valid_request;
use crate::plan::{Plan, Policy};
use crate::req::{lex, Request};
use proc_macro2::{Group, TokenStream, TokenTree};
use std::path::{Path, PathBuf};
use std::process::Command;

pub struct Ctx {
    pub rustc: Option<crate::rustc_oracle::RustcOracle>,
    pub exe: PathBuf,
    pub tmp: PathBuf,
    pub trials: usize,
    pub max_trials: usize,
    counter: usize,
}
impl Ctx {
    pub fn new(tmp: &Path, max_trials: usize) -> Self {
        std::fs::create_dir_all(tmp).ok();
        Self {
            rustc: None,
            exe: std::env::current_exe().expect("current_exe"),
            tmp: tmp.to_path_buf(),
            trials: 0,
            max_trials,
            counter: 0,
        }
    }
    /// Executes `plan` in a fresh child process (empty environment) and returns its log.
    pub fn run_child(&mut self, plan: &Plan, timeout_s: u64) -> Option<ExecLog> {
        self.trials += 1;
        self.counter += 1;
        let fin = self.tmp.join(format!("trial{}.plan.json", self.counter));
        let fout = self.tmp.join(format!("trial{}.log.json", self.counter));
        std::fs::write(&fin, serde_json::to_string(plan).ok()?).ok()?;
        let mut cmd = Command::new(&self.exe);
        cmd.arg("exec-plan")
            .arg("--plan")
            .arg(&fin)
            .arg("--out")
            .arg(&fout)
            .arg("--timeout")
            .arg(timeout_s.to_string())
            .env_clear();
        if let Some(w) = &plan.clock {
            // target/release/dexsim -> target/clockwarp.so
            if let Some(lib) = self.exe.parent().and_then(|p| p.parent()).map(|p| p.join("clockwarp.so")) {
                cmd.env("LD_PRELOAD", lib)
                    .env("DEXSIM_CLOCK_BASE_NS", w.base_ns.to_string())
                    .env("DEXSIM_CLOCK_STEP_NS", w.step_ns.to_string());
            }
        }
        if let Some(h) = plan.host {
            crate::plan::apply_host_mask(&mut cmd, h);
        }
        cmd.current_dir(&self.tmp)
            .stdout(std::process::Stdio::null())
            .stderr(std::process::Stdio::null());
        if plan.clock.is_some() {
            // the sessions that run under the clock seam also have stdout / stderr that accept no byte
            if let Ok(full) = std::fs::OpenOptions::new().write(true).open("/dev/full") {
                if let Ok(full2) = full.try_clone() {
                    cmd.stdout(full).stderr(full2);
                }
            }
        }
        let mut child = cmd.spawn().ok()?;
        let _ = child.wait();
        let text = std::fs::read_to_string(&fout).ok();
        let _ = std::fs::remove_file(&fin);
        let _ = std::fs::remove_file(&fout);
        serde_json::from_str(&text?).ok()
    }
}

fn has_class(log: &ExecLog, class: &str) -> bool {
    log.violations.iter().any(|v| v.class == class)
}

/// Single-request classes can be tried in-process. With a rustc oracle the candidate also has
/// to stay inside the property's premise (rustc parses the input) and, for ill-formed output,
/// rustc has to reject the generated tokens as well.
fn in_process_reproduces(req: &Request, class: &str, rustc: &mut Option<crate::rustc_oracle::RustcOracle>) -> bool {
    let obs = expand_and_observe(req);
    if classify(&obs) != class {
        return false;
    }
    if let Some(o) = rustc.as_mut() {
        if o.input_ok(req) != Some(true) {
            return false;
        }
        if obs.outcome == crate::exec::Outcome::Illformed {
            match o.output_ok(&obs.text) {
                Some((false, _)) => {}
                _ => return false,
            }
        }
    }
    true
}

fn tts(ts: &TokenStream) -> Vec<TokenTree> {
    ts.clone().into_iter().collect()
}

/// One pass of hierarchical delta debugging over a token stream. `test` receives the whole
/// candidate stream obtained by `rebuild(candidate_for_this_level)`.
fn hdd_level(
    ts: &TokenStream,
    rebuild: &dyn Fn(TokenStream) -> TokenStream,
    test: &mut dyn FnMut(&TokenStream) -> bool,
) -> TokenStream {
    let mut v = tts(ts);
    // ddmin: remove chunks of decreasing size
    let mut chunk = (v.len() / 2).max(1);
    loop {
        let mut i = 0;
        let mut progressed = false;
        while i < v.len() {
            let j = (i + chunk).min(v.len());
            let mut cand = v.clone();
            cand.drain(i..j);
            let cand_ts: TokenStream = cand.iter().cloned().collect();
            if test(&rebuild(cand_ts)) {
                v = cand;
                progressed = true;
            } else {
                i = j;
            }
        }
        if chunk == 1 && !progressed {
            break;
        }
        if !progressed {
            chunk = (chunk / 2).max(1);
        }
    }
    // recurse into groups
    let mut k = 0;
    while k < v.len() {
        if let TokenTree::Group(g) = v[k].clone() {
            let before: Vec<TokenTree> = v[..k].to_vec();
            let after: Vec<TokenTree> = v[k + 1..].to_vec();
            let delim = g.delimiter();
            let rebuild_inner = |inner: TokenStream| -> TokenStream {
                let mut all: Vec<TokenTree> = before.clone();
                all.push(TokenTree::Group(Group::new(delim, inner)));
                all.extend(after.iter().cloned());
                rebuild(all.into_iter().collect())
            };
            let inner = hdd_level(&g.stream(), &rebuild_inner, test);
            v[k] = TokenTree::Group(Group::new(delim, inner));
        }
        k += 1;
    }
    v.into_iter().collect()
}

/// Shrinks the request while `test` keeps returning true. Candidates that are not valid
/// requests are never tested.
pub fn shrink_request(req: &Request, test: &mut dyn FnMut(&Request) -> bool, budget: usize) -> Request {
    let mut best = req.clone();
    let mut spent = 0usize;
    for _round in 0..4 {
        let before = best.clone();
        // attribute arguments
        if let Some(attr) = lex(&best.attr) {
            let base = best.clone();
            let mut t = |cand: &TokenStream| -> bool {
                if spent >= budget {
                    return false;
                }
                let r = Request {
                    mode: base.mode,
                    attr: crate::req::print(cand),
                    item: base.item.clone(),
                };
                if !is_valid_request(&r) {
                    return false;
                }
                spent += 1;
                test(&r)
            };
            let small = hdd_level(&attr, &|x| x, &mut t);
            best.attr = crate::req::print(&small);
        }
        // item
        if let Some(item) = lex(&best.item) {
            let base = best.clone();
            let mut t = |cand: &TokenStream| -> bool {
                if spent >= budget {
                    return false;
                }
                let r = Request {
                    mode: base.mode,
                    attr: base.attr.clone(),
                    item: crate::req::print(cand),
                };
                if !is_valid_request(&r) {
                    return false;
                }
                spent += 1;
                test(&r)
            };
            let small = hdd_level(&item, &|x| x, &mut t);
            best.item = crate::req::print(&small);
        }
        if best == before || spent >= budget {
            break;
        }
    }
    best
}

pub struct Minimised {
    pub plan: Plan,
    pub trials: usize,
    pub in_process: bool,
}

/// Minimises `plan` (whose last relevant step shows a violation of `class`).
pub fn minimise(ctx: &mut Ctx, plan: &Plan, class: &str, step: usize, earlier: Option<usize>) -> Minimised {
    let target = plan.reqs[plan.steps[step].req].clone();
    let single_kind = !class.starts_with("diverge") && class != "hang";

    // 1. a one-request, plain-context session?
    let mut rustc = ctx.rustc.take();
    let first = single_kind && in_process_reproduces(&target, class, &mut rustc);
    let small = if first {
        let mut test = |r: &Request| in_process_reproduces(r, class, &mut rustc);
        Some(shrink_request(&target, &mut test, 4000))
    } else {
        None
    };
    ctx.rustc = rustc;
    if let Some(small) = small {
        let p = Plan::single(small);
        // confirm in a fresh process; fall through to the general path if it does not hold
        if let Some(log) = ctx.run_child(&p, 30) {
            if has_class(&log, class) {
                return Minimised {
                    plan: p,
                    trials: ctx.trials,
                    in_process: true,
                };
            }
        }
    }

    // 1b. a hang: trials are expensive (each waits for the watchdog), so use a short watchdog
    // while shrinking and a small budget; the final verification uses the full limit again
    if class == "hang" {
        let single = Plan::single(target.clone());
        let hangs = |ctx: &mut Ctx, p: &Plan| -> bool {
            match ctx.run_child(p, 5) {
                Some(log) => has_class(&log, "hang"),
                None => false,
            }
        };
        if hangs(ctx, &single) {
            let mut test = |r: &Request| hangs(ctx, &Plan::single(r.clone()));
            let small = shrink_request(&target, &mut test, 40);
            return Minimised {
                plan: Plan::single(small),
                trials: ctx.trials,
                in_process: false,
            };
        }
    }

    // 2. general path: cut to the prefix, then delta-debug the steps in child processes
    let mut cur = Plan {
        reqs: plan.reqs.clone(),
        steps: plan.steps[..=step].to_vec(),
        clock: plan.clock.clone(),
        host: plan.host,
    };
    cur.compact();
    let timeout = if class == "hang" { 40 } else { 30 };
    let mut reproduces = |ctx: &mut Ctx, p: &Plan| -> bool {
        if ctx.trials >= ctx.max_trials {
            return false;
        }
        match ctx.run_child(p, timeout) {
            Some(log) => has_class(&log, class),
            None => false,
        }
    };
    if !reproduces(ctx, &cur) {
        // not reproducible in a child: report the original prefix as is
        return Minimised {
            plan: cur,
            trials: ctx.trials,
            in_process: false,
        };
    }
    let _ = earlier;
    // ddmin over steps; the last step is always kept
    let mut chunk = (cur.steps.len() / 2).max(1);
    loop {
        let mut i = 0;
        let mut progressed = false;
        while i + 1 < cur.steps.len() {
            let j = (i + chunk).min(cur.steps.len() - 1);
            if j <= i {
                break;
            }
            let mut cand = cur.clone();
            cand.steps.drain(i..j);
            cand.compact();
            if reproduces(ctx, &cand) {
                cur = cand;
                progressed = true;
            } else {
                i = j;
            }
        }
        if chunk == 1 && !progressed {
            break;
        }
        if !progressed {
            chunk = (chunk / 2).max(1);
        }
        if ctx.trials >= ctx.max_trials {
            break;
        }
    }
    // collapse threads and keys
    {
        let mut cand = cur.clone();
        for s in &mut cand.steps {
            s.thread = "main".into();
        }
        if reproduces(ctx, &cand) {
            cur = cand;
        } else {
            for k in 0..cur.steps.len() {
                if cur.steps[k].thread != "main" {
                    let mut cand = cur.clone();
                    cand.steps[k].thread = "main".into();
                    if reproduces(ctx, &cand) {
                        cur = cand;
                    }
                }
            }
        }
        let mut cand = cur.clone();
        for s in &mut cand.steps {
            s.policy = Policy::Keep;
        }
        if reproduces(ctx, &cand) {
            cur = cand;
        } else {
            for k in 0..cur.steps.len() {
                if cur.steps[k].policy != Policy::Keep {
                    let mut cand = cur.clone();
                    cand.steps[k].policy = Policy::Keep;
                    if reproduces(ctx, &cand) {
                        cur = cand;
                    }
                }
            }
        }
    }
    // shrink the input of the last step (child-process trials, smaller budget)
    let last_req = cur.steps.last().unwrap().req;
    let orig = cur.reqs[last_req].clone();
    {
        let base = cur.clone();
        let mut test = |r: &Request| -> bool {
            let mut cand = base.clone();
            cand.reqs[last_req] = r.clone();
            if !reproduces(ctx, &cand) {
                return false;
            }
            match ctx.rustc.as_mut() {
                Some(o) => o.input_ok(r) == Some(true),
                None => true,
            }
        };
        let small = shrink_request(&orig, &mut test, 600);
        cur.reqs[last_req] = small;
    }
    cur.compact();
    Minimised {
        plan: cur,
        trials: ctx.trials,
        in_process: false,
    }
}

fn last_digest(log: &ExecLog) -> Option<String> {
    log.step_log.last().and_then(|l| l.rsplit(' ').next().map(String::from))
}

/// Divergence across processes: shrink both schedules (the last step of each is kept) while
/// the two processes still disagree about the output of that last request.
pub fn minimise_pair(ctx: &mut Ctx, a: &Plan, b: &Plan) -> (Plan, Plan) {
    let differs = |ctx: &mut Ctx, a: &Plan, b: &Plan| -> bool {
        if ctx.trials >= ctx.max_trials {
            return false;
        }
        match (ctx.run_child(a, 30), ctx.run_child(b, 30)) {
            (Some(x), Some(y)) => {
                let (dx, dy) = (last_digest(&x), last_digest(&y));
                dx.is_some() && dy.is_some() && dx != dy
            }
            _ => false,
        }
    };
    let mut a = a.clone();
    let mut b = b.clone();
    if !differs(ctx, &a, &b) {
        return (a, b);
    }
    for _round in 0..3 {
        let before = a.steps.len() + b.steps.len();
        for side in 0..2 {
            let mut chunk = {
                let cur = if side == 0 { &a } else { &b };
                (cur.steps.len() / 2).max(1)
            };
            loop {
                let mut i = 0;
                let mut progressed = false;
                loop {
                    let cur = if side == 0 { a.clone() } else { b.clone() };
                    if i + 1 >= cur.steps.len() {
                        break;
                    }
                    let j = (i + chunk).min(cur.steps.len() - 1);
                    if j <= i {
                        break;
                    }
                    let mut cand = cur.clone();
                    cand.steps.drain(i..j);
                    cand.compact();
                    let ok = if side == 0 { differs(ctx, &cand, &b) } else { differs(ctx, &a, &cand) };
                    if ok {
                        if side == 0 {
                            a = cand;
                        } else {
                            b = cand;
                        }
                        progressed = true;
                    } else {
                        i = j;
                    }
                }
                if chunk == 1 && !progressed {
                    break;
                }
                if !progressed {
                    chunk = (chunk / 2).max(1);
                }
                if ctx.trials >= ctx.max_trials {
                    break;
                }
            }
        }
        if a.steps.len() + b.steps.len() == before {
            break;
        }
    }
    // collapse threads and keys on both sides
    for side in 0..2 {
        let mut cand = if side == 0 { a.clone() } else { b.clone() };
        for st in &mut cand.steps {
            st.thread = "main".into();
            st.policy = Policy::Keep;
        }
        let ok = if side == 0 { differs(ctx, &cand, &b) } else { differs(ctx, &a, &cand) };
        if ok {
            if side == 0 {
                a = cand;
            } else {
                b = cand;
            }
        }
    }
    (a, b)
}
