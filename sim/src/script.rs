//! Engine M: the short scripted session executed under Miri (filled in below).

use std::collections::BTreeMap;

pub fn cmd_script(_m: &BTreeMap<String, String>) {
    eprintln!("script: not built yet");
    std::process::exit(2);
}
