//! Engine M: a short scripted session meant to run under Miri with many seeds
//! (`-Zmiri-many-seeds`, `-Zmiri-preemption-rate`). Miri's seed drives the OS randomness that
//! `RandomState` draws its keys from, allocation addresses and the preemption points between the
//! two concurrently expanding threads — without any source seam, so it also covers containers and
//! state that bypass the hasher hook. No file I/O (Miri isolation stays on); the result is a
//! line on stdout that the driver compares across seeds.

use crate::plan::Policy;
use crate::req::{canon, digest, lex, Mode, Request};
use std::collections::BTreeMap;
use std::panic::{catch_unwind, AssertUnwindSafe};

fn script_requests() -> Vec<Request> {
    let raw: &[(&str, &str, &str)] = &[
        (
            "attr",
            "Clone, Default",
            "struct X<T, U>(#[derive_ex(Clone(bound(T : Copy)), Default(bound(U)), Debug(bound()))] T, U);",
        ),
        ("attr", "PartialEq, Hash", "enum E<A, B, C> { V(A, C), W { b: B } }"),
        (
            "derive",
            "",
            "#[derive_ex(Debug, Add)] struct D<'a, T, U, const N: usize>(&'a T, Vec<U>, [u8; N]);",
        ),
        ("attr", "Deref", "struct X(u8, u8);"),
    ];
    raw.iter()
        .map(|(m, a, i)| Request {
            mode: if *m == "attr" { Mode::Attr } else { Mode::Derive },
            attr: a.to_string(),
            item: i.to_string(),
        })
        .collect()
}

/// Digest of the output tokens, or "PANIC".
fn expand_digest(r: &Request) -> String {
    let (Some(attr), Some(item)) = (lex(&r.attr), lex(&r.item)) else {
        return "INVALID".into();
    };
    let mode = r.mode;
    match catch_unwind(AssertUnwindSafe(move || match mode {
        Mode::Attr => derive_ex::verif_hooks::expand_attr(attr, item),
        Mode::Derive => derive_ex::verif_hooks::expand_derive(item),
    })) {
        Ok(ts) => digest(&canon(&ts)),
        Err(_) => "PANIC".into(),
    }
}

pub fn cmd_script(m: &BTreeMap<String, String>) {
    // real RandomState unless asked otherwise
    if !m.contains_key("keyed") {
        crate::exec::apply_policy(&Policy::Os);
    }
    let reqs = script_requests();
    let mut expansions = 0usize;
    // phase 1: the initial thread, each request once
    let first: Vec<String> = reqs
        .iter()
        .map(|r| {
            expansions += 1;
            expand_digest(r)
        })
        .collect();
    let mut violations = 0;
    for (i, d) in first.iter().enumerate() {
        if d == "PANIC" {
            println!("SCRIPT VIOLATION panic in request {i} on the initial thread");
            violations += 1;
        }
    }
    // phase 2: two threads expanding concurrently, in opposite orders
    let r1 = reqs.clone();
    let r2: Vec<Request> = reqs.iter().rev().cloned().collect();
    let h1 = std::thread::spawn(move || r1.iter().map(expand_digest).collect::<Vec<_>>());
    let h2 = std::thread::spawn(move || r2.iter().map(expand_digest).collect::<Vec<_>>());
    let d1 = h1.join().unwrap_or_default();
    let mut d2 = h2.join().unwrap_or_default();
    d2.reverse();
    expansions += d1.len() + d2.len();
    for (i, d) in first.iter().enumerate() {
        if d1.get(i) != Some(d) {
            println!("SCRIPT VIOLATION request {i}: initial thread {d} vs concurrent thread 1 {:?}", d1.get(i));
            violations += 1;
        }
        if d2.get(i) != Some(d) {
            println!("SCRIPT VIOLATION request {i}: initial thread {d} vs concurrent thread 2 {:?}", d2.get(i));
            violations += 1;
        }
    }
    // phase 3: the initial thread again, after the others
    for (i, r) in reqs.iter().enumerate().take(2) {
        expansions += 1;
        let d = expand_digest(r);
        if d != first[i] {
            println!("SCRIPT VIOLATION request {i}: first {} vs re-delivery {d}", first[i]);
            violations += 1;
        }
    }
    println!(
        "SCRIPT RESULT digest={} expansions={expansions} violations={violations}",
        digest(&first.join(","))
    );
}
