//! Seed corpus, re-extracted from /repo's working tree on every run: every item carrying
//! `#[derive_ex(..)]` or `#[derive(.. Ex ..)]` in the test-suite (compile-fail inputs included)
//! and in the fenced code blocks of the documentation, formed into requests the way rustc
//! forms them.

use crate::req::{canon, Mode, Request};
use proc_macro2::TokenStream;
use quote::ToTokens;
use serde::{Deserialize, Serialize};
use std::collections::BTreeSet;
use std::path::{Path, PathBuf};
use syn::visit::Visit;

#[derive(Clone, Debug, Serialize, Deserialize)]
pub struct CorpusEntry {
    pub origin: String,
    pub req: Request,
}

#[derive(Clone, Debug, Default, Serialize, Deserialize)]
pub struct Corpus {
    pub entries: Vec<CorpusEntry>,
    pub files_read: usize,
    pub doc_blocks: usize,
    pub doc_blocks_unparsed: usize,
    /// messages of the error-construction sites found in derive-ex/src (for reach probes)
    pub error_sites: Vec<ErrorSite>,
}

#[derive(Clone, Debug, Serialize, Deserialize)]
pub struct ErrorSite {
    pub file: String,
    pub line: usize,
    /// the literal pieces of the format string between `{..}` holes
    pub pieces: Vec<String>,
}

fn is_derive_ex_attr(a: &syn::Attribute) -> bool {
    a.path().is_ident("derive_ex")
}
fn is_derive_with_ex(a: &syn::Attribute) -> bool {
    if !a.path().is_ident("derive") {
        return false;
    }
    let mut found = false;
    let _ = a.parse_nested_meta(|m| {
        if m.path.segments.last().map(|s| s.ident == "Ex").unwrap_or(false) {
            found = true;
        }
        Ok(())
    });
    found
}

fn attrs_of(item: &mut syn::Item) -> Option<&mut Vec<syn::Attribute>> {
    Some(match item {
        syn::Item::Struct(i) => &mut i.attrs,
        syn::Item::Enum(i) => &mut i.attrs,
        syn::Item::Impl(i) => &mut i.attrs,
        syn::Item::Union(i) => &mut i.attrs,
        syn::Item::Fn(i) => &mut i.attrs,
        syn::Item::Trait(i) => &mut i.attrs,
        syn::Item::Mod(i) => &mut i.attrs,
        syn::Item::Type(i) => &mut i.attrs,
        syn::Item::Const(i) => &mut i.attrs,
        syn::Item::Static(i) => &mut i.attrs,
        syn::Item::Use(i) => &mut i.attrs,
        syn::Item::Macro(i) => &mut i.attrs,
        syn::Item::ExternCrate(i) => &mut i.attrs,
        syn::Item::ForeignMod(i) => &mut i.attrs,
        syn::Item::TraitAlias(i) => &mut i.attrs,
        _ => return None,
    })
}
pub fn item_attrs_mut(item: &mut syn::Item) -> Option<&mut Vec<syn::Attribute>> {
    attrs_of(item)
}

/// Forms the request(s) rustc would form for `item`, or nothing if it does not use derive-ex.
pub fn requests_of_item(item: &syn::Item) -> Vec<Request> {
    let mut out = Vec::new();
    let mut item = item.clone();
    let Some(attrs) = attrs_of(&mut item) else {
        return out;
    };
    let has_derive_ex = attrs.iter().any(is_derive_ex_attr);
    let has_derive_macro = attrs.iter().any(is_derive_with_ex);
    if !has_derive_ex && !has_derive_macro {
        return out;
    }
    if has_derive_macro {
        // derive input: the item without any #[derive(..)]
        let mut it = item.clone();
        attrs_of(&mut it).unwrap().retain(|a| !a.path().is_ident("derive"));
        out.push(Request::new(
            Mode::Derive,
            &TokenStream::new(),
            &it.to_token_stream(),
        ));
    } else {
        // attribute input: the first derive_ex attribute's arguments, and the item without it
        let mut it = item.clone();
        let attrs = attrs_of(&mut it).unwrap();
        let pos = attrs.iter().position(is_derive_ex_attr).unwrap();
        let a = attrs.remove(pos);
        let args = match &a.meta {
            syn::Meta::List(l) => l.tokens.clone(),
            _ => TokenStream::new(),
        };
        out.push(Request::new(Mode::Attr, &args, &it.to_token_stream()));
    }
    out
}

struct Collector<'a> {
    origin: &'a str,
    out: &'a mut Vec<CorpusEntry>,
}
impl<'ast> Visit<'ast> for Collector<'_> {
    fn visit_item(&mut self, i: &'ast syn::Item) {
        for req in requests_of_item(i) {
            self.out.push(CorpusEntry {
                origin: self.origin.to_string(),
                req,
            });
        }
        syn::visit::visit_item(self, i);
    }
}

fn collect_file(origin: &str, src: &str, out: &mut Vec<CorpusEntry>) -> bool {
    match syn::parse_file(src) {
        Ok(f) => {
            Collector { origin, out }.visit_file(&f);
            true
        }
        Err(_) => false,
    }
}

fn rs_files(dir: &Path, out: &mut Vec<PathBuf>) {
    let Ok(rd) = std::fs::read_dir(dir) else {
        return;
    };
    let mut ents: Vec<PathBuf> = rd.filter_map(|e| e.ok()).map(|e| e.path()).collect();
    ents.sort();
    for p in ents {
        if p.is_dir() {
            rs_files(&p, out);
        } else if p.extension().map(|e| e == "rs").unwrap_or(false) {
            out.push(p);
        }
    }
}

fn doc_blocks(md: &str) -> Vec<String> {
    let mut blocks = Vec::new();
    let mut cur: Option<String> = None;
    for line in md.lines() {
        let t = line.trim_start();
        if t.starts_with("```") {
            match cur.take() {
                Some(b) => blocks.push(b),
                None => {
                    let info = t.trim_start_matches('`').trim();
                    if info.is_empty()
                        || info.starts_with("rust")
                        || info.starts_with("compile_fail")
                        || info.starts_with("should_panic")
                        || info.starts_with("no_run")
                        || info.starts_with("ignore")
                    {
                        cur = Some(String::new());
                    } else {
                        cur = Some("\u{0}skip".into());
                    }
                }
            }
        } else if let Some(b) = cur.as_mut() {
            if b.starts_with('\u{0}') {
                continue;
            }
            // rustdoc's hidden-line prefix
            let l = if t == "#" {
                ""
            } else if let Some(rest) = t.strip_prefix("# ") {
                rest
            } else {
                line
            };
            b.push_str(l);
            b.push('\n');
        }
    }
    blocks.retain(|b| !b.starts_with('\u{0}'));
    blocks
}

/// Extracts the literal pieces of the messages built at `bail!(..)` / `Error::new(..)` sites.
fn error_sites(repo: &Path) -> Vec<ErrorSite> {
    let mut files = Vec::new();
    rs_files(&repo.join("derive-ex/src"), &mut files);
    let mut sites = Vec::new();
    for f in files {
        if f.file_name().map(|n| n == "verif_hooks.rs").unwrap_or(false) {
            continue;
        }
        let Ok(src) = std::fs::read_to_string(&f) else {
            continue;
        };
        let rel = f.strip_prefix(repo).unwrap_or(&f).display().to_string();
        let lines: Vec<&str> = src.lines().collect();
        let mut i = 0;
        while i < lines.len() {
            let l = lines[i];
            let t = l.trim_start();
            let is_site = !t.starts_with("//")
                && !t.starts_with("macro_rules")
                && !l.contains("($span")
                && !l.contains("(_, $(")
                && (l.contains("bail!(")
                    || l.contains("Error::new(")
                    || l.contains("let message = \"")
                    || l.contains("let mut msg = format!("));
            if is_site {
                // the first string literal within the next few lines is the format string
                let mut text = String::new();
                // the statement only: up to the first line that ends it
                for l2 in lines.iter().skip(i).take(12) {
                    text.push_str(l2);
                    text.push('\n');
                    let e = l2.trim_end();
                    if e.ends_with(';') || e.ends_with(")?") || e.ends_with("?;") {
                        break;
                    }
                }
                if let Some(fmt) = first_string_literal(&text) {
                    let pieces = split_format(&fmt);
                    if pieces.iter().any(|p| p.len() >= 4) {
                        sites.push(ErrorSite {
                            file: rel.clone(),
                            line: i + 1,
                            pieces,
                        });
                    }
                }
            }
            i += 1;
        }
    }
    sites
}

fn first_string_literal(text: &str) -> Option<String> {
    let b: Vec<char> = text.chars().collect();
    let mut i = 0;
    while i < b.len() {
        if b[i] == '"' {
            let mut s = String::new();
            i += 1;
            while i < b.len() && b[i] != '"' {
                if b[i] == '\\' && i + 1 < b.len() {
                    match b[i + 1] {
                        'n' => s.push('\n'),
                        '"' => s.push('"'),
                        '\\' => s.push('\\'),
                        '\n' => {
                            // line continuation: skip following whitespace
                            i += 2;
                            while i < b.len() && b[i].is_whitespace() {
                                i += 1;
                            }
                            continue;
                        }
                        c => s.push(c),
                    }
                    i += 2;
                    continue;
                }
                s.push(b[i]);
                i += 1;
            }
            return Some(s);
        }
        i += 1;
    }
    None
}

fn split_format(fmt: &str) -> Vec<String> {
    let mut pieces = Vec::new();
    let mut cur = String::new();
    let cs: Vec<char> = fmt.chars().collect();
    let mut i = 0;
    while i < cs.len() {
        if cs[i] == '{' {
            if i + 1 < cs.len() && cs[i + 1] == '{' {
                cur.push('{');
                i += 2;
                continue;
            }
            while i < cs.len() && cs[i] != '}' {
                i += 1;
            }
            i += 1;
            if !cur.is_empty() {
                pieces.push(std::mem::take(&mut cur));
            }
            continue;
        }
        if cs[i] == '}' && i + 1 < cs.len() && cs[i + 1] == '}' {
            cur.push('}');
            i += 2;
            continue;
        }
        cur.push(cs[i]);
        i += 1;
    }
    if !cur.is_empty() {
        pieces.push(cur);
    }
    pieces
}

impl ErrorSite {
    pub fn matches(&self, msg: &str) -> bool {
        let mut pos = 0;
        for p in &self.pieces {
            match msg[pos..].find(p.as_str()) {
                Some(i) => pos += i + p.len(),
                None => return false,
            }
        }
        true
    }
    pub fn label(&self) -> String {
        format!("{}:{}", self.file, self.line)
    }
}

pub fn extract(repo: &Path) -> Result<Corpus, String> {
    let mut c = Corpus::default();
    let mut files = Vec::new();
    rs_files(&repo.join("derive-ex-tests/tests"), &mut files);
    rs_files(&repo.join("derive-ex-tests/src"), &mut files);
    for f in &files {
        let src = std::fs::read_to_string(f).map_err(|e| format!("{}: {e}", f.display()))?;
        let origin = f.strip_prefix(repo).unwrap_or(f).display().to_string();
        if collect_file(&origin, &src, &mut c.entries) {
            c.files_read += 1;
        }
    }
    for md in ["doc/derive_ex.md", "README.md"] {
        let Ok(text) = std::fs::read_to_string(repo.join(md)) else {
            continue;
        };
        for (bi, b) in doc_blocks(&text).iter().enumerate() {
            c.doc_blocks += 1;
            let origin = format!("{md}#block{bi}");
            if !collect_file(&origin, b, &mut c.entries) {
                c.doc_blocks_unparsed += 1;
            }
        }
    }
    // dedupe by request id, keep first origin; stable order
    let mut seen = BTreeSet::new();
    c.entries.retain(|e| seen.insert(e.req.id()));
    // keep only requests whose text round-trips (validity filter)
    c.entries.retain(|e| crate::gen::is_valid_request(&e.req));
    c.error_sites = error_sites(repo);
    if c.entries.len() < 50 {
        return Err(format!(
            "corpus extraction found only {} items under {} (expected hundreds)",
            c.entries.len(),
            repo.display()
        ));
    }
    Ok(c)
}

#[allow(dead_code)]
pub fn canon_of(s: &str) -> Option<String> {
    crate::req::lex(s).map(|t| canon(&t))
}
