//! The only randomness in the simulator: SplitMix64 for seed derivation and xoshiro256** for
//! streams. Written out here so that no crate upgrade can change a stream.

#[derive(Clone, Debug)]
pub struct SplitMix64(pub u64);
impl SplitMix64 {
    pub fn next(&mut self) -> u64 {
        self.0 = self.0.wrapping_add(0x9E37_79B9_7F4A_7C15);
        let mut z = self.0;
        z = (z ^ (z >> 30)).wrapping_mul(0xBF58_476D_1CE4_E5B9);
        z = (z ^ (z >> 27)).wrapping_mul(0x94D0_49BB_1331_11EB);
        z ^ (z >> 31)
    }
}

/// Derives an independent seed from (seed, label, index).
pub fn derive_seed(seed: u64, label: u64, index: u64) -> u64 {
    let mut s = SplitMix64(seed ^ label.wrapping_mul(0xD6E8_FEB8_6659_FD93));
    let a = s.next();
    let mut s = SplitMix64(a ^ index.wrapping_mul(0xA076_1D64_78BD_642F));
    s.next()
}

#[derive(Clone, Debug)]
pub struct Rng {
    s: [u64; 4],
}
impl Rng {
    pub fn new(seed: u64) -> Self {
        let mut sm = SplitMix64(seed);
        let s = [sm.next(), sm.next(), sm.next(), sm.next()];
        Self { s }
    }
    pub fn next_u64(&mut self) -> u64 {
        let result = self.s[1].wrapping_mul(5).rotate_left(7).wrapping_mul(9);
        let t = self.s[1] << 17;
        self.s[2] ^= self.s[0];
        self.s[3] ^= self.s[1];
        self.s[1] ^= self.s[2];
        self.s[0] ^= self.s[3];
        self.s[2] ^= t;
        self.s[3] = self.s[3].rotate_left(45);
        result
    }
    /// Uniform in 0..n (n > 0). Modulo bias is irrelevant here.
    pub fn below(&mut self, n: usize) -> usize {
        debug_assert!(n > 0);
        (self.next_u64() % (n as u64)) as usize
    }
    /// Uniform in lo..=hi.
    pub fn range(&mut self, lo: usize, hi: usize) -> usize {
        lo + self.below(hi - lo + 1)
    }
    /// True with probability num/den.
    pub fn chance(&mut self, num: usize, den: usize) -> bool {
        self.below(den) < num
    }
    pub fn pick<'a, T>(&mut self, xs: &'a [T]) -> &'a T {
        &xs[self.below(xs.len())]
    }
    pub fn pick_str(&mut self, xs: &[&'static str]) -> &'static str {
        xs[self.below(xs.len())]
    }
    /// Index chosen with the given integer weights.
    pub fn weighted(&mut self, weights: &[usize]) -> usize {
        let total: usize = weights.iter().sum();
        let mut x = self.below(total.max(1));
        for (i, w) in weights.iter().enumerate() {
            if x < *w {
                return i;
            }
            x -= *w;
        }
        weights.len() - 1
    }
}
