//! Directed seeds ("generator output" in the property's corpus definition): arity and error
//! edges that mutation from well-formed tests reaches slowly. Deterministic list.

use crate::gen::{is_valid_request, KEY_EXPRS, TRAITS, VALUE_EXPRS};
use crate::req::{lex, Mode, Request};

const SHAPES: &[&str] = &[
    "struct X;",
    "struct X();",
    "struct X {}",
    "struct X(u8);",
    "struct X { a: u8 }",
    "struct X(u8, String);",
    "struct X { a: u8, b: String }",
    "struct X<T>(T);",
    "struct X<T> { a: T, b: Vec<T>, c: u8 }",
    "struct X<'a, T: ?Sized, const N: usize>(&'a T, [u8; N]) where T: 'a;",
    "struct X { r#type: u8, r#match: String }",
    "enum X {}",
    "enum X { A }",
    "enum X { A(u8) }",
    "enum X { A { a: u8 } }",
    "enum X { A, B }",
    "enum X { A, B(u8, String), C { a: u8, b: String } }",
    "enum X<T> { A(T), B { t: Vec<T> }, C }",
    "enum X { r#type, r#match { r#fn: u8 } }",
    "enum X { A = 1, B = 2 }",
    "union X { a: u8, b: u32 }",
    "struct X<T>(T) where;",
    "struct X where { a: u8 }",
    "enum X<T> where { A(T), B }",
    "struct X<>(u8);",
    "struct X<T,>(T,) where T: Copy,;",
    "enum X<> { A(), B {}, }",
    "struct X<'a>(&'a u8);",
    "struct X<const N: usize>([u8; N]);",
    "struct X<#[cfg(x)] T, #[allow(unused)] 'a>(T);",
    "struct Donn\u{e9}es { \u{e9}t\u{e9}: u8, \u{540d}\u{524d}: String }",
    "enum \u{540d}\u{524d}<\u{3b1}> { \u{3b1}(\u{3b1}), \u{3b2} { \u{e9}: u8 } }",
    "struct X<'a, 'b: 'a, T: 'a + ?Sized, const N: usize = 3>(&'a T, &'b [u8; N]) where 'b: 'a;",
    "struct X<T = u8, U: Default = T>(T, U);",
    "enum X { A(u8) = 1, B { a: u8 } = 2, C = 3 }",
    "struct X(pub u8, pub(crate) String, pub(in crate::a) u8);",
    "struct X { #[cfg(x)] a: u8, #[doc = \"d\"] b: u8 }",
];

const EXTRA: &[(&str, &str, &str)] = &[
    // (mode, attr, item)
    ("attr", "Default", "enum X { #[default] A, #[default] B }"),
    ("attr", "Default", "enum X { A, B }"),
    ("attr", "Default", "enum X { #[default(1)] A, B }"),
    ("attr", "Default", "#[default(X::B)] enum X { A, B }"),
    ("attr", "Default", "enum X { #[default = 1] A, B }"),
    ("attr", "Default", "struct X { #[default = 1] a: u8 }"),
    ("attr", "Default", "struct X { #[default] #[default] a: u8 }"),
    ("attr", "Default", "struct X { #[default(1)] #[default(2)] a: u8 }"),
    ("attr", "Default", "#[default(X::new())] struct X { a: u8 }"),
    ("attr", "Default", "#[default(_)] struct X<T> { #[default(\"a\")] a: String, #[default(T::new(), bound(T : New))] t: T }"),
    ("attr", "Debug", "struct X { #[debug(transparent)] a: u8, #[debug(transparent)] b: u8 }"),
    ("attr", "Debug", "struct X { #[debug(transparent, ignore)] a: u8 }"),
    ("attr", "Debug", "enum X { A(#[debug(transparent)] u8, #[debug(transparent)] u8), B }"),
    ("attr", "Debug", "#[debug(bound(T))] struct X<T> { #[debug(ignore)] a: T, #[debug(bound(T : Copy))] b: T }"),
    ("attr", "Debug", "#[debug] #[debug] struct X;"),
    ("attr", "Debug", "#[debug = 1] struct X;"),
    ("attr", "Ord, PartialOrd, Eq, PartialEq, Hash", "#[ord(ignore)] struct X(u8);"),
    ("attr", "Ord, PartialOrd, Eq, PartialEq, Hash", "#[ord(reverse)] struct X(u8);"),
    ("attr", "Ord, PartialOrd, Eq, PartialEq, Hash", "#[ord(key = $.0)] struct X(u8);"),
    ("attr", "Ord, PartialOrd, Eq, PartialEq, Hash", "#[ord(by = f)] struct X(u8);"),
    ("attr", "Ord, PartialOrd, Eq, PartialEq, Hash", "enum X { #[ord(ignore)] A(u8) }"),
    ("attr", "Ord, PartialOrd, Eq, PartialEq, Hash", "enum X { #[ord(reverse)] A(u8) }"),
    ("attr", "Ord, PartialOrd, Eq, PartialEq, Hash", "enum X { #[ord(key = $.0)] A(u8) }"),
    ("attr", "Ord, PartialOrd, Eq, PartialEq, Hash", "enum X { #[ord(by = f)] A(u8) }"),
    ("attr", "Ord, PartialOrd, Eq, PartialEq, Hash", "struct X(#[ord(ignore, reverse)] u8);"),
    ("attr", "Ord, PartialOrd, Eq, PartialEq, Hash", "struct X(#[ord(key = $.len())] String, #[ord(reverse)] u8, #[ord(ignore)] u8);"),
    ("attr", "Ord, PartialOrd, Eq, PartialEq, Hash", "struct X(#[ord(by = |a, b| a.cmp(b))] u8);"),
    ("attr", "Ord, PartialOrd, Eq, PartialEq, Hash", "struct X(#[partial_ord(reverse)] u8);"),
    ("attr", "Ord, PartialOrd, Eq, PartialEq, Hash", "struct X(#[partial_ord(ignore)] u8);"),
    ("attr", "Ord, PartialOrd, Eq, PartialEq, Hash", "struct X(#[partial_eq(ignore)] u8);"),
    ("attr", "Ord, PartialOrd, Eq, PartialEq, Hash", "struct X(#[eq(ignore)] u8);"),
    ("attr", "Ord, PartialOrd, Eq, PartialEq, Hash", "struct X(#[hash(ignore)] u8);"),
    ("attr", "Ord, PartialOrd, Eq, PartialEq, Hash", "struct X(#[partial_eq(key = $.0)] (u8,));"),
    ("attr", "Ord, PartialOrd, Eq, PartialEq, Hash", "struct X(#[partial_eq(by = f)] u8);"),
    ("attr", "Ord, PartialOrd, Eq, PartialEq, Hash", "struct X(#[eq(key = $.0)] (u8,));"),
    ("attr", "Ord, PartialOrd, Eq, PartialEq, Hash", "struct X(#[eq(by = f)] u8);"),
    ("attr", "Ord, PartialOrd, Eq, PartialEq, Hash", "struct X(#[hash(key = $.0)] (u8,));"),
    ("attr", "Ord, PartialOrd, Eq, PartialEq, Hash", "struct X(#[hash(by = f)] u8);"),
    ("attr", "Ord, PartialOrd, Eq, PartialEq, Hash", "struct X(#[partial_ord(key = $.0)] (u8,));"),
    ("attr", "Ord, PartialOrd, Eq, PartialEq, Hash", "struct X(#[partial_ord(by = f)] u8);"),
    ("attr", "Eq, PartialEq", "struct X(#[partial_eq(ignore)] u8);"),
    ("attr", "Eq, PartialEq", "struct X(#[partial_ord(ignore)] u8);"),
    ("attr", "Eq, PartialEq", "struct X(#[partial_eq(key = $.0)] (u8,));"),
    ("attr", "Eq, PartialEq", "struct X(#[partial_eq(by = f)] u8);"),
    ("attr", "Eq, PartialEq", "struct X(#[partial_ord(key = $.0)] (u8,));"),
    ("attr", "Eq, PartialEq", "struct X(#[partial_ord(by = f)] u8);"),
    ("attr", "Eq, PartialEq", "struct X(#[hash(key = $.0)] (u8,));"),
    ("attr", "Hash", "struct X(#[partial_eq(ignore)] u8);"),
    ("attr", "Hash", "struct X(#[partial_ord(ignore)] u8);"),
    ("attr", "Hash", "struct X(#[eq(by = f)] u8);"),
    ("attr", "Hash", "struct X(#[ord(by = f)] u8);"),
    ("attr", "Hash, Eq", "struct X(#[eq(key = $.len())] String);"),
    ("attr", "PartialOrd", "struct X(#[partial_eq(ignore)] u8);"),
    ("attr", "PartialOrd", "struct X(#[eq(ignore)] u8);"),
    ("attr", "PartialOrd", "struct X(#[partial_eq(key = $.0)] (u8,));"),
    ("attr", "PartialOrd", "struct X(#[eq(key = $.0)] (u8,));"),
    ("attr", "PartialOrd, PartialEq", "struct X(#[ord(key = $.0)] (u8,));"),
    ("attr", "PartialOrd, PartialEq", "struct X(#[ord(by = f)] u8);"),
    ("attr", "Ord", "struct X(#[partial_ord(reverse)] u8);"),
    ("attr", "Ord", "struct X(#[partial_ord(key = $.0)] (u8,));"),
    ("attr", "Ord", "struct X(#[partial_ord(by = f)] u8);"),
    ("attr", "Ord", "struct X(#[eq(key = $.0)] (u8,));"),
    ("attr", "Ord", "struct X(#[hash(key = $.0)] (u8,));"),
    ("attr", "Ord", "struct X(#[ord(key = $ . 0 . $)] (u8,));"),
    ("attr", "Ord", "struct X(#[ord(key = $$)] u8);"),
    ("attr", "Ord", "struct X(#[ord(key = { let __placeholder = 1; $ })] u8);"),
    ("attr", "Ord", "struct X(#[ord(key = m!($, [$, ($)]))] u8);"),
    ("attr", "Ord", "struct X(#[ord(key)] u8);"),
    ("attr", "Ord", "struct X(#[ord(key = )] u8);"),
    ("attr", "Ord", "struct X(#[ord(by)] u8);"),
    ("attr", "Ord", "struct X(#[ord(ignore = true)] u8);"),
    ("attr", "Ord", "struct X(#[ord(unknown)] u8);"),
    ("attr", "Ord", "struct X(#[ord(ignore, ignore)] u8);"),
    ("attr", "Ord", "struct X(#[ord] #[ord] u8);"),
    ("attr", "Ord", "struct X(#[ord = 1] u8);"),
    ("attr", "Ord", "struct X(#[ord()] u8);"),
    ("attr", "Ord", "struct X(#[ord[ignore]] u8);"),
    ("attr", "Ord", "struct X(#[ord{ignore}] u8);"),
    ("attr", "Ord, Eq", "enum X<T> { #[ord(bound(T))] A(#[ord(bound(T : Ord))] T), #[eq(bound(..))] B(T) }"),
    ("attr", "Deref", "struct X(u8, u8);"),
    ("attr", "Deref, DerefMut", "struct X<T: ?Sized>(Box<T>);"),
    ("attr", "Deref, DerefMut", "struct X<'a>(&'a dyn A);"),
    ("attr", "Deref(bound(T)), DerefMut(bound(..))", "struct X<T>(T);"),
    ("attr", "DerefMut", "enum X { A(u8) }"),
    ("attr", "Add", "enum X { A(u8) }"),
    ("attr", "Neg", "enum X { A(u8) }"),
    ("attr", "AddAssign", "enum X { A(u8) }"),
    ("attr", "", "struct X;"),
    ("attr", ",", "struct X;"),
    ("attr", "Clone,", "struct X;"),
    ("attr", "Clone Clone", "struct X;"),
    ("attr", "Clone, Clone", "struct X;"),
    ("attr", "Clone, clone", "struct X;"),
    ("attr", "Clone()", "struct X;"),
    ("attr", "Clone(bound())", "struct X<T>(T);"),
    ("attr", "Clone(bound(..))", "struct X<T>(T);"),
    ("attr", "Clone(bound(T, ..))", "struct X<T>(T);"),
    ("attr", "Clone(bound(T : Clone + 'static))", "struct X<T>(T);"),
    ("attr", "Clone(bound(T), bound(T))", "struct X<T>(T);"),
    ("attr", "Clone(dump)", "struct X<T>(T);"),
    ("attr", "Clone, dump", "struct X<T>(T);"),
    ("attr", "dump", "struct X<T>(T);"),
    ("attr", "dump, dump", "struct X<T>(T);"),
    ("attr", "bound(T)", "struct X<T>(T);"),
    ("attr", "Clone, bound(T), bound(T)", "struct X<T>(T);"),
    ("attr", "Clone, Default, bound(T : Clone + Default)", "struct X<T>(T);"),
    ("attr", "Clone(bound = T)", "struct X<T>(T);"),
    ("attr", "Clone(bound)", "struct X<T>(T);"),
    ("attr", "Clone = 1", "struct X<T>(T);"),
    ("attr", "Clone(1)", "struct X<T>(T);"),
    ("attr", "1", "struct X;"),
    ("attr", "\"Clone\"", "struct X;"),
    ("attr", "::Clone", "struct X;"),
    ("attr", "core::clone::Clone", "struct X;"),
    ("attr", "Clone", "struct X<T>(#[derive_ex(Clone(bound(T : Copy)))] T);"),
    ("attr", "Clone", "struct X<T>(#[derive_ex(Clone(bound(T : Copy)), Clone(bound(T : Default)))] T);"),
    ("attr", "Clone", "struct X<T>(#[derive_ex(Clone(bound(T : Copy)))] #[derive_ex(Clone(bound(T : Default)))] T);"),
    ("attr", "Clone, Default", "struct X<T, U>(#[derive_ex(Clone(bound(T : Copy)), Default(bound(U)), bound(T : 'static))] T, U);"),
    ("attr", "Clone, Default, Debug, Copy", "enum X<T, U> { #[derive_ex(Clone(bound(T : Copy)), Default(bound(U)), Debug(bound()), Copy(bound(..)))] #[default] A(T, U), B }"),
    ("attr", "Clone", "#[derive_ex(Default)] #[derive_ex(Debug)] struct X<T>(T);"),
    ("attr", "Clone", "#[derive_ex] struct X<T>(T);"),
    ("attr", "Clone", "#[derive_ex = 1] struct X<T>(T);"),
    ("attr", "Clone", "struct X<T>(#[derive_ex(Unknown)] T);"),
    ("attr", "Clone", "struct X<T>(#[derive_ex(dump)] T);"),
    ("attr", "Clone", "struct X<T>(#[derive_ex(Clone(dump))] T);"),
    ("attr", "Add", "struct X(u8, dyn A + B);"),
    ("attr", "Add", "struct X<T>(T, impl A + B);"),
    ("attr", "Clone, Default, Debug, PartialEq, Hash", "struct X(dyn A + B);"),
    ("attr", "Deref, DerefMut", "struct X(dyn A + B);"),
    ("attr", "Ord", "struct X(#[ord(by = f)] dyn A + B);"),
    ("attr", "Hash", "struct X(#[hash(by = f)] dyn A + B);"),
    ("attr", "PartialEq", "struct X(#[eq(by = f)] dyn A + B);"),
    ("attr", "Neg, Not", "struct X<T>(T, A + B);"),
    ("attr", "AddAssign", "struct X<T>(T, dyn A + B);"),
    ("attr", "Add", "impl Add for dyn A + B { type Output = u8; fn add(self, rhs: Self) -> u8 { 0 } }"),
    ("attr", "Add", "impl Add<dyn A + B> for X { type Output = u8; fn add(self, rhs: Self) -> u8 { 0 } }"),
    ("attr", "Add", "impl Add for X { type Output = dyn A + B; }"),
    ("attr", "AddAssign", "impl Add for dyn A + B { type Output = u8; }"),
    ("attr", "Add", "impl AddAssign<dyn A + B> for X { }"),
    ("attr", "Add", "impl Add for X {}"),
    ("attr", "Add", "impl Add for W<Self> { type Output = Self; fn add(self, rhs: Self) -> Self { self } }"),
    ("attr", "AddAssign", "impl Add for W<Self> { type Output = Self; fn add(self, rhs: Self) -> Self { self } }"),
    ("attr", "Add", "impl Add<Self> for (Self, u8) { type Output = Self; }"),
    ("attr", "Add", "impl Add<u8> for [Self; 2] { type Output = Self; }"),
    ("attr", "Add", "impl<T: Tr<Self>> Add<T> for Box<Self> where Self: Sized { type Output = Option<Self>; }"),
    ("attr", "Sub", "impl SubAssign<&Self> for Box<Self> { fn sub_assign(&mut self, rhs: &Self) {} }"),
    ("attr", "Bogus", "impl Add for W<Self> { type Output = Self; }"),
    ("attr", "Add", "impl Add for Self { type Output = Self; }"),
    ("attr", "Add", "impl Add<W<Self>> for X { type Output = W<W<Self>>; }"),
    ("attr", "Add", "struct X<T: Tr<Self>>(T) where Self: Sized, W<Self>: Tr;"),
    ("attr", "Clone, Default", "struct X<T: Tr<Self>>(Box<Self>, T) where Self: Sized;"),
    ("attr", "Add", "impl X {}"),
    ("attr", "Add", "impl !Add for X {}"),
    ("attr", "Add", "impl Sub for X { type Output = X; }"),
    ("attr", "Add, Sub", "impl Add for X { type Output = X; }"),
    ("attr", "AddAssign", "impl AddAssign for X { fn add_assign(&mut self, rhs: X) {} }"),
    ("attr", "Add", "impl AddAssign for X { fn add_assign(&mut self, rhs: X) {} }"),
    ("attr", "Add, AddAssign", "impl Add for X { type Output = X; fn add(self, rhs: X) -> X { self } }"),
    ("attr", "Add, AddAssign", "impl Add<&X> for &X { type Output = X; fn add(self, rhs: &X) -> X { X } }"),
    ("attr", "Add, AddAssign", "impl<T: Copy> Add<T> for &X<T> where T: Add<Output = T> { type Output = X<T>; fn add(self, rhs: T) -> X<T> { todo!() } }"),
    ("attr", "AddAssign", "impl Add<&X> for X { type Output = Self; fn add(self, rhs: &Self) -> Self { self } }"),
    ("attr", "Add", "impl Add<Self> for X { type Output = Option<Self>; fn add(self, rhs: Self) -> Option<Self> { None } }"),
    ("attr", "Add", "impl Add<u8, u8> for X { type Output = X; }"),
    ("attr", "Add", "impl Add<'a> for X { type Output = X; }"),
    ("attr", "Add", "impl Add<> for X { type Output = X; }"),
    ("attr", "Add", "impl Add<{ 1 }> for X { type Output = X; }"),
    ("attr", "Neg", "impl Neg for X { type Output = X; fn neg(self) -> X { self } }"),
    ("attr", "Clone", "impl Clone for X { fn clone(&self) -> X { X } }"),
    ("attr", "Add, dump", "impl Add for X { type Output = X; fn add(self, rhs: X) -> X { self } }"),
    ("attr", "dump", "impl Add for X { type Output = X; fn add(self, rhs: X) -> X { self } }"),
    ("attr", "", "impl Add for X { type Output = X; fn add(self, rhs: X) -> X { self } }"),
    ("attr", "Add(dump)", "impl Add for X { type Output = X; }"),
    ("attr", "Add, bound(T)", "impl Add for X { type Output = X; }"),
    ("attr", "Add", "impl<T> Add for T { type Output = T; }"),
    ("attr", "Add", "impl<> Add<> for X where { type Output = X; }"),
    ("attr", "Add", "impl<T,> Add<T,> for X<T,> where T: Copy, { type Output = X<T,>; }"),
    ("attr", "Add, AddAssign", "impl<'a, T> Add<&'a T> for &'a X<T> where for<'b> &'b T: Copy, T: 'a { type Output = X<T>; }"),
    ("attr", "Add", "impl Add for &&X { type Output = X; }"),
    ("attr", "Add", "impl Add for &'a X { type Output = X; }"),
    ("attr", "Add", "impl Add for &mut X { type Output = X; }"),
    ("attr", "Add", "unsafe impl Add for X { type Output = X; }"),
    ("attr", "Add", "impl<const N: usize> Add<[u8; N]> for X<N> where [u8; N]: Sized { type Output = Self; }"),
    ("attr", "Add", "impl Add for (X, X) { type Output = <Self as Tr>::Out; }"),
    ("attr", "Clone", "fn f() {}"),
    ("attr", "Clone", "trait T {}"),
    ("attr", "Clone", "mod m {}"),
    ("attr", "Clone", "union U { a: u8 }"),
    ("attr", "Clone", "type A = u8;"),
    ("attr", "Clone", "const C: u8 = 0;"),
    ("attr", "Clone", "static S: u8 = 0;"),
    ("attr", "Clone", "use a::b;"),
    ("attr", "Clone", "extern crate a;"),
    ("attr", "Clone", "macro_rules! m { () => {} }"),
    ("attr", "Clone", "compile_error!(\"user\");"),
    ("attr", "Clone", "compile_error!();"),
    ("attr", "Clone", "extern \"C\" {}"),
    ("attr", "Clone", "std::thread_local! { static X: u8 = 0; }"),
    ("attr", "Clone", "::a::b! {}"),
    ("attr", "Clone", "a::b![1, 2];"),
    ("attr", "Clone", "m!(x);"),
    ("attr", "", "a::b::c! { struct X; }"),
    ("attr", "Clone", "async fn f() {}"),
    ("attr", "Clone", "unsafe trait Tr {}"),
    ("attr", "Clone", "impl<T> Tr for T {}"),
    ("attr", "Clone", "const _: () = ();"),
    ("attr", "Clone", "static mut S: u8 = 0;"),
    ("attr", "Clone", "type A<T> = Vec<T>;"),
    ("attr", "Clone", "pub use a::{b, c as d, e::*};"),
    ("attr", "not a trait list at all ! $ # @", "struct X;"),
    ("attr", "not a trait list at all ! $ # @", "fn f() {}"),
    ("derive", "", "struct X;"),
    ("derive", "", "#[derive_ex] struct X;"),
    ("derive", "", "#[derive_ex()] struct X;"),
    ("derive", "", "#[derive_ex = 1] struct X;"),
    ("derive", "", "#[derive_ex(Clone)] #[derive_ex(Default)] struct X<T>(T);"),
    ("derive", "", "#[derive_ex(Clone, Clone)] struct X<T>(T);"),
    ("derive", "", "#[derive_ex(Clone)] union U { a: u8 }"),
    ("derive", "", "#[derive_ex(Eq, PartialEq)] struct X { #[eq(key = $.len())] value: String }"),
    ("derive", "", "#[ord(ignore)] struct X;"),
    ("derive", "", "#[derive_ex(Unknown)] struct X;"),
    ("derive", "", "#[derive_ex(Add)] enum X { A }"),
    ("derive", "", "#[derive_ex(Default)] enum X { A, B }"),
    ("derive", "", "#[derive_ex(Clone(dump))] struct X;"),
    ("derive", "", "#[derive_ex(Deref)] struct X;"),
    ("derive", "", "#[derive_ex(Add)] struct X(u8, dyn A + B);"),
];

pub fn directed() -> Vec<Request> {
    let mut out = Vec::new();
    for shape in SHAPES {
        for tr in TRAITS {
            out.push(Request {
                mode: Mode::Attr,
                attr: tr.to_string(),
                item: shape.to_string(),
            });
            out.push(Request {
                mode: Mode::Derive,
                attr: String::new(),
                item: format!("#[derive_ex({tr})] {shape}"),
            });
        }
        let all = TRAITS.join(", ");
        out.push(Request {
            mode: Mode::Attr,
            attr: all.clone(),
            item: shape.to_string(),
        });
    }
    for (mode, attr, item) in EXTRA {
        out.push(Request {
            mode: if *mode == "attr" { Mode::Attr } else { Mode::Derive },
            attr: attr.to_string(),
            item: item.to_string(),
        });
    }
    // every key/by expression of the dictionary under every comparison helper
    for cmp in ["ord", "partial_ord", "eq", "partial_eq", "hash"] {
        for arg in ["key", "by"] {
            for e in KEY_EXPRS {
                out.push(Request {
                    mode: Mode::Attr,
                    attr: "Ord, PartialOrd, Eq, PartialEq, Hash".into(),
                    item: format!("struct X(#[{cmp}({arg} = {e})] (u8, u8));"),
                });
            }
        }
    }
    for e in KEY_EXPRS {
        out.push(Request {
            mode: Mode::Derive,
            attr: String::new(),
            item: format!("#[derive_ex(PartialOrd, PartialEq)] enum X {{ A {{ #[partial_ord(key = {e})] r#type: (u8, u8) }}, B }}"),
        });
    }
    // `key` and `by` together in one helper (either order, or split over two helpers), good and
    // bad key templates, under every interesting subset of the comparison traits
    {
        let keys = [
            "$", "$.0", "f($)", "{ let $ = 1; 0 }", "|$| 1", "$::K", "x.$", "S { $: 1 }",
            "{ let __placeholder = 1; 0 }", "__placeholder!()", "match 1 { $ => 2 }",
        ];
        let lists = [
            "Hash", "Eq, PartialEq, Hash", "Ord, PartialOrd, Eq, PartialEq, Hash", "PartialOrd, PartialEq",
            "Ord, PartialOrd", "Eq, PartialEq",
        ];
        for cmp in ["ord", "partial_ord", "eq", "partial_eq", "hash"] {
            for k in keys {
                for args in [
                    format!("key = {k}, by = f"),
                    format!("by = |a, b| a == b, key = {k}"),
                    format!("key = {k}, reverse"),
                    format!("key = {k}, ignore"),
                    format!("key = {k}, bound(T)"),
                ] {
                    for list in lists {
                        out.push(Request {
                            mode: Mode::Attr,
                            attr: list.to_string(),
                            item: format!("struct X<T>(#[{cmp}({args})] (u8, u8), T);"),
                        });
                    }
                }
                out.push(Request {
                    mode: Mode::Derive,
                    attr: String::new(),
                    item: format!("#[derive_ex(Ord, PartialOrd, Eq, PartialEq, Hash)] enum X {{ A(#[{cmp}(by = f)] #[ord(key = {k})] #[eq(key = {k}, by = g)] (u8, u8)) }}"),
                });
            }
        }
    }
    // every ordered pair of helper ARGUMENTS of the comparison family, in one attribute and split
    // over two attributes (of the same or of two different comparison helpers) on one field:
    // what one argument makes of the expression another argument produced (`reverse` around
    // `by`, `ignore` next to `key`, `bound` next to either, the same argument twice)
    {
        let args = ["key = $", "key = $.0", "by = f", "by = |a, b| f(a, b)", "reverse", "ignore", "bound(T)", "bound(..)"];
        let cmps = ["ord", "partial_ord", "eq", "partial_eq", "hash"];
        let lists = ["Ord, PartialOrd, Eq, PartialEq, Hash", "PartialOrd, PartialEq", "Ord, PartialOrd", "Hash, Eq, PartialEq"];
        for a1 in args {
            for a2 in args {
                if a1 == a2 && a1 != "reverse" {
                    continue;
                }
                for c1 in cmps {
                    for list in lists {
                        out.push(Request { mode: Mode::Attr, attr: list.into(), item: format!("struct X<T>(#[{c1}({a1}, {a2})] (u8, u8), T);") });
                    }
                    out.push(Request {
                        mode: Mode::Derive,
                        attr: String::new(),
                        item: format!("#[derive_ex(Ord, PartialOrd, Eq, PartialEq, Hash)] enum X<T> {{ A {{ #[{c1}({a1}, {a2})] a: (u8, u8), t: T }}, B }}"),
                    });
                    for c2 in cmps {
                        for list in &lists[..2] {
                            out.push(Request { mode: Mode::Attr, attr: list.to_string(), item: format!("struct X<T>(#[{c1}({a1})] #[{c2}({a2})] (u8, u8), T);") });
                        }
                    }
                }
            }
        }
    }
    // the first of several compared fields carries the helper, in an enum variant and a struct
    for cmp in ["ord", "partial_ord", "eq", "partial_eq", "hash"] {
        for (arg, e) in [("by", "f"), ("key", "$.0"), ("by", "|a, b| a == b"), ("key", "{ $ }")] {
            for item in [
                format!("enum X {{ A(#[{cmp}({arg} = {e})] (u8, u8), u8, String), B }}"),
                format!("enum X {{ A {{ #[{cmp}({arg} = {e})] a: (u8, u8), b: u8 }}, B(u8, #[{cmp}({arg} = {e})] (u8, u8), u8) }}"),
                format!("struct X {{ #[{cmp}({arg} = {e})] a: (u8, u8), b: u8, #[{cmp}({arg} = {e})] c: (u8, u8) }}"),
            ] {
                out.push(Request {
                    mode: Mode::Attr,
                    attr: "Ord, PartialOrd, Eq, PartialEq, Hash".into(),
                    item,
                });
            }
        }
    }
    // block-like heads x what may follow them: expressions that stop being ONE expression when
    // spliced at the start of a statement, a block tail or a match arm
    let mut block_like: Vec<String> = Vec::new();
    for head in [
        "{ 1 }", "unsafe { 1 }", "const { 1 }", "async { 1 }", "'a: { 1 }", "if a { 1 } else { 2 }", "match x { _ => 1 }",
        "loop { break 1 }", "while a {}", "for a in b {}", "m! { 1 }", "m! {}", "a::b! { 1 }", "if let Some(a) = b { a } else { c }",
    ] {
        for tail in ["+ 2", "- 1", ".f()", ".0", "as u8", "== 2", "?", "[0]", "(1)", "..", "= 1", "&& b", "| c", "< d", "* e", "&mut f", ".await"] {
            block_like.push(format!("{head} {tail}"));
        }
    }
    let value_exprs: Vec<&str> = VALUE_EXPRS.iter().copied().chain(block_like.iter().map(|s| s.as_str())).collect();
    for e in &block_like {
        out.push(Request {
            mode: Mode::Attr,
            attr: "Ord, PartialOrd, Eq, PartialEq, Hash".into(),
            item: format!("struct X(#[ord(key = {e})] (u8, u8), #[eq(by = {e})] u8);"),
        });
    }
    // every value expression as a type-level, variant-level and field-level default
    for e in value_exprs {
        out.push(Request {
            mode: Mode::Attr,
            attr: "Default".into(),
            item: format!("#[default({e})] struct X(u8);"),
        });
        out.push(Request {
            mode: Mode::Attr,
            attr: "Default".into(),
            item: format!("struct X<T>(#[default({e})] T, #[default({e}, bound(T))] u8);"),
        });
        out.push(Request {
            mode: Mode::Derive,
            attr: String::new(),
            item: format!("#[derive_ex(Default)] #[default({e})] enum X {{ A, B }}"),
        });
        out.push(Request {
            mode: Mode::Attr,
            attr: "Default".into(),
            item: format!("enum X {{ #[default({e})] A, #[default] B {{ #[default({e})] a: u8 }} }}"),
        });
    }
    // impl grid: self type x right-hand side x Output (pairs and triples of header features)
    let self_tys = [
        "X", "&X", "&'a X", "&mut X", "dyn A + B", "(dyn A + B)", "&(dyn A + B)", "X<T>", "[X; 2]",
        "(X, X)", "Box<dyn A + B>", "*const X", "dyn A + 'static", "impl A + B", "&&X",
    ];
    let rhs = [
        "", "<Self>", "<&Self>", "<&'a Self>", "<&mut Self>", "<*const Self>", "<*mut Self>",
        "<&dyn Fn() -> Self>", "<&fn() -> Self>", "<Box<Self>>", "<(Self, Self)>", "<[Self; 2]>", "<u8>",
        "<&u8>", "<dyn A + B>", "<&&Self>", "<&'a mut [Self]>", "<*const dyn A>", "<fn(Self) -> Self>",
    ];
    let outputs = ["Self", "*const Self", "&'a Self", "Option<Self>", "u8", "dyn A + B", "&dyn Fn() -> Self"];
    for st in self_tys {
        for r in rhs {
            for o in outputs {
                out.push(Request {
                    mode: Mode::Attr,
                    attr: "Add, AddAssign".into(),
                    item: format!("impl<'a, T: Into<*const Self>> Add{r} for {st} {{ type Output = {o}; }}"),
                });
            }
            out.push(Request {
                mode: Mode::Attr,
                attr: "Sub".into(),
                item: format!("impl<'a> SubAssign{r} for {st} where Self: 'a {{ fn sub_assign(&mut self, rhs: Self) {{}} }}"),
            });
        }
    }
    // every dictionary type as a field type, alone and next to a generic field, all traits
    for ty in crate::gen::TYPES {
        out.push(Request {
            mode: Mode::Attr,
            attr: TRAITS.join(", "),
            item: format!("struct X<'a, T, const N: usize>({ty});"),
        });
        out.push(Request {
            mode: Mode::Attr,
            attr: "Ord, PartialOrd, Eq, PartialEq, Hash, Clone, Debug, Default, Copy".into(),
            item: format!("enum X<'a, T, const N: usize> {{ A(T, {ty}), #[default] B {{ a: {ty} }} }}"),
        });
    }
    // wide inputs: many generic parameters, fields, variants, bound entries, field-level entries
    for n in [9usize, 12, 17, 33] {
        let params: Vec<String> = (0..n).map(|i| format!("T{i}")).collect();
        let plist = params.join(", ");
        let named: Vec<String> = (0..n).map(|i| format!("f{i}: T{i}")).collect();
        let alternating: Vec<String> = (0..n).map(|i| if i % 2 == 0 { "T".to_string() } else { "Vec<U>".to_string() }).collect();
        let variants: Vec<String> = (0..n).map(|i| format!("V{i}(T{i})")).collect();
        let wide = [
            ("Clone, Default, Debug, PartialEq, Add", format!("struct X<{plist}> {{ {} }}", named.join(", "))),
            ("Copy, Clone, Ord, PartialOrd, Eq, PartialEq, Hash, Neg, SubAssign", format!("struct X<T, U>({});", alternating.join(", "))),
            ("Clone, Debug, PartialOrd, PartialEq, Hash", format!("enum X<{plist}> {{ {} }}", variants.join(", "))),
            (&*format!("Clone(bound({plist})), Default(bound({plist}, ..))"), format!("struct X<{plist}>(T0);")),
            ("Clone, Default", format!("struct X<{plist}>(#[derive_ex({})] T0);", TRAITS.iter().take(n).map(|t| format!("{t}(bound(T{}))", n - 1)).collect::<Vec<_>>().join(", "))),
        ];
        for (attr, item) in wide {
            out.push(Request { mode: Mode::Attr, attr: attr.to_string(), item: item.clone() });
            out.push(Request { mode: Mode::Derive, attr: String::new(), item: format!("#[derive_ex({attr})] {item}") });
            // the same with `dump` in effect: very long diagnostics (tens of kilobytes)
            out.push(Request { mode: Mode::Attr, attr: format!("{attr}, dump"), item: item.clone() });
            out.push(Request { mode: Mode::Derive, attr: String::new(), item: format!("#[derive_ex(dump, {attr})] {item}") });
        }
        // one dumped trait each on a wide struct / enum / impl
        for tr in ["Add", "Clone", "PartialOrd", "Debug", "Hash", "Default", "SubAssign", "Neg"] {
            out.push(Request { mode: Mode::Attr, attr: format!("{tr}(dump)"), item: format!("struct X<T> {{ {} }}", (0..n * 3).map(|i| format!("f{i:02}: T")).collect::<Vec<_>>().join(", ")) });
            out.push(Request { mode: Mode::Attr, attr: format!("{tr}, dump"), item: format!("enum X<T> {{ #[default] D, {} }}", (0..n).map(|i| format!("V{i}(T, u8, String)")).collect::<Vec<_>>().join(", ")) });
        }
        out.push(Request { mode: Mode::Attr, attr: "Add, AddAssign, dump".into(), item: format!("impl<{plist}> Add<&X<{plist}>> for &X<{plist}> where {} {{ type Output = X<{plist}>; }}", params.iter().map(|p| format!("{p}: Copy + Add<Output = {p}>")).collect::<Vec<_>>().join(", ")) });
    }
    // field- and variant-level #[derive_ex(..)] entries naming traits that are / are not derived
    // at type level, through both entry points
    for field_list in [
        "Clone, Default",
        "Clone(bound(T)), Default(bound(U)), Debug(bound())",
        "Ord, PartialOrd, Eq, PartialEq, Hash",
        "Add, Sub, Neg",
        "Unknown, Clone",
        "Clone, Default, dump",
        "Clone(dump), Debug(dump)",
        "Clone(dump), Default, Debug(bound(T), dump), dump",
        "dump",
        "bound(T)",
        "",
    ] {
        for type_list in ["Clone", "Debug", "Clone, Default, Debug", ""] {
            for item in [
                format!("struct X<T, U>(#[derive_ex({field_list})] T, U);"),
                format!("enum X<T, U> {{ #[derive_ex({field_list})] A(#[derive_ex({field_list})] T), #[default] B(U) }}"),
            ] {
                out.push(Request { mode: Mode::Attr, attr: type_list.to_string(), item: item.clone() });
                out.push(Request { mode: Mode::Derive, attr: String::new(), item: format!("#[derive_ex({type_list})] {item}") });
            }
        }
    }
    // every operator through the impl path, binary and assign forms
    for op in &TRAITS[..10] {
        let f = op.to_lowercase();
        out.push(Request {
            mode: Mode::Attr,
            attr: format!("{op}, {op}Assign"),
            item: format!("impl {op} for X {{ type Output = X; fn {f}(self, rhs: X) -> X {{ self }} }}"),
        });
        out.push(Request {
            mode: Mode::Attr,
            attr: format!("{op}Assign"),
            item: format!("impl<T: Copy> ::core::ops::{op}<&T> for &X<T> {{ type Output = X<T>; fn {f}(self, rhs: &T) -> X<T> {{ todo!() }} }}"),
        });
        out.push(Request {
            mode: Mode::Attr,
            attr: format!("{op}"),
            item: format!("impl {op}Assign<u8> for X {{ fn {f}_assign(&mut self, rhs: u8) {{}} }}"),
        });
    }
    // where-clause x common bound x per-trait bound x field-level bound
    {
        let wheres = ["", "where T: Copy", "where T: Copy,", "where", "where 'a: 'a, T: 'a", "where for<'x> &'x T: Copy, U: Clone,"];
        let bounds = ["", "bound()", "bound(..)", "bound(T)", "bound(T: Clone)", "bound(T: Clone, U)", "bound(T, ..)", "bound(T,)", "bound(T: Clone,)", "bound('a: 'a)", "bound(.., ..)", "bound(U: ?Sized)"];
        for w in wheres {
            for common in bounds {
                for per in bounds {
                    let per_s = if per.is_empty() { String::new() } else { format!("({per})") };
                    let common_s = if common.is_empty() { String::new() } else { format!(", {common}") };
                    out.push(Request {
                        mode: Mode::Attr,
                        attr: format!("Clone{per_s}, Default, Add{per_s}, PartialEq{common_s}"),
                        item: format!("struct X<'a, T, U>(&'a T, #[derive_ex(Clone{per_s}, Default({common}))] U, #[partial_eq({common})] u8) {w};"),
                    });
                }
            }
            for common in bounds {
                out.push(Request {
                    mode: Mode::Derive,
                    attr: String::new(),
                    item: format!("#[derive_ex(Clone, Debug, Hash, {common})] #[debug({common})] enum X<'a, T, U> {w} {{ #[hash({common})] A(&'a T), B {{ #[debug({common})] u: U }} }}"),
                });
            }
        }
    }
    // every helper-attribute FORM on the type, a variant and a field
    {
        let forms = ["#[N]", "#[N()]", "#[N = 1]", "#[N[ignore]]", "#[N{ignore}]", "#[::N]", "#[derive_ex::N(ignore)]", "#[N::x]", "#[N(ignore)] #[N(ignore)]", "/// doc\n #[N(bound(T))] /// more", "#[N(,)]", "#[N(bound(T),)]", "#[cfg_attr(x, N(ignore))]"];
        for name in ["ord", "partial_ord", "eq", "partial_eq", "hash", "debug", "default", "derive_ex"] {
            for form in forms {
                let a = form.replace('N', name);
                for item in [
                    format!("{a} struct X<T>(T);"),
                    format!("struct X<T>({a} T, u8);"),
                    format!("enum X<T> {{ {a} A(T), #[default] B }}"),
                    format!("enum X<T> {{ A({a} T), #[default] B }}"),
                ] {
                    out.push(Request { mode: Mode::Attr, attr: "Ord, PartialOrd, Eq, PartialEq, Hash, Debug, Default, Clone".into(), item: item.clone() });
                    out.push(Request { mode: Mode::Attr, attr: "Clone".into(), item: item.clone() });
                    out.push(Request { mode: Mode::Derive, attr: String::new(), item: format!("#[derive_ex(Ord, PartialOrd, Eq, PartialEq, Hash, Debug, Default, Clone)] {item}") });
                }
            }
        }
        // all helpers at once, only one trait (or none) derived
        let all = "#[ord(bound(T))] #[partial_ord(bound(T))] #[eq(bound(T))] #[partial_eq(bound(T))] #[hash(bound(T))] #[debug(bound(T))] #[default(_, bound(T))]";
        for list in ["Clone", "Debug", "Hash", "Default", "", "Ord, Debug"] {
            out.push(Request { mode: Mode::Attr, attr: list.into(), item: format!("{all} struct X<T>({all} T);") });
            out.push(Request { mode: Mode::Attr, attr: list.into(), item: format!("{all} enum X<T> {{ {all} A({all} T), B }}") });
        }
    }
    // qualifiers and item forms around ordinary input
    for item in [
        "pub(in crate::a) struct X(pub(self) u8, pub(in super) String);",
        "#[repr(C)] #[cfg_attr(x, derive(Debug))] /// doc\n pub(crate) struct X { /// field doc\n #[cfg(x)] pub a: u8 }",
        "pub enum X { #[doc = \"d\"] #[cfg(x)] A(#[cfg(x)] pub u8), B { #[allow(unused)] pub b: u8 } }",
        "unsafe impl Add for X { type Output = X; unsafe fn add(self, rhs: X) -> X { self } }",
        "default impl Add for X { type Output = X; default fn add(self, rhs: X) -> X { self } }",
        "impl Add for X { #[inline] type Output = X; const C: u8 = 0; #[inline(always)] extern \"C\" fn add(self, rhs: X) -> X { self } m!(); }",
        "impl Add for X { type Output = X; async fn add(self, rhs: X) -> X { self } const fn f() {} pub fn g() {} }",
        "#[cfg(x)] #[allow(unused)] impl<T> Add<T> for X<T> where T: Copy { /// doc\n type Output = X<T>; fn add(self, rhs: T) -> X<T> { self } }",
        "impl AddAssign for X { default fn add_assign(&mut self, rhs: X) {} type T = u8; const K: u8 = 1; }",
    ] {
        for attr in ["Add, AddAssign", "Clone, Default, Debug, Ord, PartialOrd, Eq, PartialEq, Hash", "Add", "Sub", ""] {
            out.push(Request { mode: Mode::Attr, attr: attr.into(), item: item.into() });
        }
    }
    // types handed over by a `macro_rules!` expansion (`$t:ty`): inside a None-delimited group
    for ty in ["dyn A + B", "dyn Fn() + Send", "impl A + B", "fn(T)", "T", "Vec<T>", "&'a T", "(T, u8)", "[T; N]", "dyn A", "A + B"] {
        for (attr, item) in [
            (TRAITS.join(", "), format!("struct X<'a, T, const N: usize>(__ng({ty}));")),
            ("Deref, DerefMut".to_string(), format!("struct X<'a, T, const N: usize>(__ng({ty}));")),
            ("Ord, PartialOrd, Eq, PartialEq, Hash, Clone, Debug, Default".to_string(), format!("enum X<'a, T, const N: usize> {{ A(T, #[ord(by = f)] __ng({ty})), #[default] B {{ a: __ng({ty}) }} }}")),
            ("Add, AddAssign".to_string(), format!("impl<'a, T> Add<__ng({ty})> for __ng({ty}) {{ type Output = __ng({ty}); }}")),
            ("Sub".to_string(), format!("impl<'a, T> SubAssign<&Self> for __ng({ty}) {{ }}")),
        ] {
            out.push(Request { mode: Mode::Attr, attr: attr.clone(), item: item.clone() });
            if !item.starts_with("impl") {
                out.push(Request { mode: Mode::Derive, attr: String::new(), item: format!("#[derive_ex({attr})] {item}") });
            }
        }
    }
    // bound lists with legal but unusual punctuation (a trailing `+`, a lone bound, a lifetime
    // first, a binder) in every position where the expander writes `&` in front of a user type:
    // `by` helpers of the comparison family, Deref, the impl path's self / operand / output types
    for ty in [
        "dyn A +", "dyn A + B +", "impl A +", "dyn 'a + A", "dyn A + 'a +", "dyn for<'b> A<'b> +",
        "(dyn A +)", "&'a (dyn A +)", "Box<dyn A +>", "__ng(dyn A +)", "dyn A<T> +", "dyn Fn() -> u8 +",
    ] {
        for h in ["ord(by = f)", "partial_ord(by = f)", "eq(by = f)", "partial_eq(by = |_, _| true)", "hash(by = f)", "ord(key = $.0)", "ord(by = f, reverse)"] {
            for item in [
                format!("struct X<'a, T>(u8, #[{h}] {ty});"),
                format!("struct X<'a, T> {{ n: T, #[{h}] x: {ty}, }}"),
                format!("enum X<'a, T> {{ A(T, #[{h}] {ty}), #[default] B }}"),
            ] {
                out.push(Request { mode: Mode::Attr, attr: "Ord, PartialOrd, Eq, PartialEq, Hash".into(), item: item.clone() });
                out.push(Request { mode: Mode::Derive, attr: String::new(), item: format!("#[derive_ex(PartialEq, Hash)] {item}") });
            }
        }
        for (attr, item) in [
            ("Deref, DerefMut", format!("struct X<'a, T>({ty});")),
            ("Deref", format!("struct X<'a, T> {{ x: {ty} }}")),
            ("Clone, Debug, Default, PartialOrd, PartialEq, Hash", format!("struct X<'a, T>(T, {ty});")),
            ("Add, AddAssign", format!("impl<'a, T> Add<{ty}> for X {{ type Output = {ty}; }}")),
            ("Add, AddAssign", format!("impl<'a, T> Add for {ty} {{ type Output = X; }}")),
            ("Sub", format!("impl<'a, T> SubAssign<&Self> for {ty} {{ }}")),
        ] {
            out.push(Request { mode: Mode::Attr, attr: attr.into(), item });
        }
    }
    // expressions handed over by a `macro_rules!` expansion (`$e:expr`)
    for e in ["1", "\"s\"", "X::A", "{ X(1) } + X(2)", "$.0", "|a, b| a == b", "f", "1 + 2", "_"] {
        for item in [
            format!("#[default(__ng({e}))] struct X(u8);"),
            format!("struct X<T>(#[default(__ng({e}))] T, #[default(__ng({e}), bound(T))] u8);"),
            format!("enum X {{ #[default(__ng({e}))] A, #[default] B {{ #[default(__ng({e}))] a: u8 }} }}"),
            format!("struct X(#[ord(key = __ng({e}))] (u8, u8), #[eq(by = __ng({e}))] u8, #[hash(key = __ng({e}), by = __ng({e}))] u8);"),
        ] {
            out.push(Request { mode: Mode::Attr, attr: "Default, Ord, PartialOrd, Eq, PartialEq, Hash".into(), item: item.clone() });
            out.push(Request { mode: Mode::Derive, attr: String::new(), item: format!("#[derive_ex(Default, Ord, PartialOrd, Eq, PartialEq, Hash)] {item}") });
        }
    }
    // every unknown / oddly spelled trait name in every trait-name position
    for name in crate::gen::unknown_traits() {
        let name = crate::gen::ident_text(name);
        for (mode, attr, item) in [
            ("attr", name.clone(), "struct X(u8);".to_string()),
            ("attr", format!("Clone, {name}, Default"), "enum X { #[default] A, B(u8) }".to_string()),
            ("attr", format!("{name}(bound(T))"), "struct X<T>(T);".to_string()),
            ("derive", String::new(), format!("#[derive_ex({name})] struct X(u8);")),
            ("derive", String::new(), format!("#[derive_ex(Clone)] enum X {{ A(#[derive_ex({name}(bound(T)))] u8) }}")),
            ("attr", "Clone".to_string(), format!("struct X(#[derive_ex({name})] u8);")),
            ("attr", name.clone(), "impl Add for X { type Output = X; }".to_string()),
            ("attr", "Add".to_string(), format!("impl {name} for X {{ type Output = X; }}")),
            ("attr", "Add".to_string(), format!("impl {name}<u8> for &X {{ }}")),
        ] {
            out.push(Request {
                mode: if mode == "attr" { Mode::Attr } else { Mode::Derive },
                attr,
                item,
            });
        }
    }
    // size extremes: very long identifiers and literals, long lists of short ones
    {
        use crate::gen::ident_text;
        let l600a = format!("A{}", ident_text("@long600"));
        let l600b = format!("B{}", ident_text("@long600"));
        let l1100 = ident_text("@long1100");
        let l5000 = ident_text("@long5000");
        let many_defaults: Vec<String> = (0..120).map(|i| format!("#[default] Variant{i:03}")).collect();
        let many_traits: Vec<String> = (0..200).map(|i| format!("Unknown{i}")).collect();
        let long_lit = "x".repeat(3000);
        let extremes: Vec<(&str, String, String)> = vec![
            ("attr", "Default".into(), format!("enum X {{ #[default] {l600a}, #[default] {l600b} }}")),
            ("attr", "Default".into(), format!("enum X {{ {} }}", many_defaults.join(", "))),
            ("derive", "".into(), format!("#[derive_ex(Default)] enum X {{ #[default] {l600a}, #[default] {l600b}, C }}")),
            ("attr", "Add".into(), format!("impl {l1100} for X {{ type Output = X; }}")),
            ("attr", "Add".into(), format!("impl {l1100}Assign for X {{ }}")),
            ("attr", l1100.clone(), "struct X;".into()),
            ("attr", format!("Clone, {l5000}"), "struct X;".into()),
            ("attr", many_traits.join(", "), "struct X;".into()),
            ("attr", "Deref".into(), format!("struct {l1100}(u8, u8);")),
            ("attr", "Add".into(), format!("enum {l1100} {{ A }}")),
            ("attr", TRAITS.join(", "), format!("struct {l1100}<{l600a}> {{ {l600b}: {l600a}, r#type: u8 }}")),
            ("attr", "Clone, Debug, PartialOrd, PartialEq, Hash, Default".into(), format!("enum {l1100} {{ {l600a} {{ {l600b}: u8 }}, #[default] B }}")),
            ("attr", "Default".into(), format!("struct X(#[default(\"{long_lit}\")] String);")),
            ("attr", "Ord, PartialOrd, Eq, PartialEq".into(), format!("struct X(#[ord(key = $.{l1100})] u8, #[ord({l1100})] u8);")),
            ("attr", "Ord".into(), format!("struct X(#[ord(key = $.0, by = {l1100}, {l1100} = 1)] u8);")),
            ("attr", "Debug".into(), format!("struct X(#[debug({l1100})] u8);")),
            ("attr", "Default".into(), format!("enum X {{ #[default({l1100})] A, B }}")),
            ("attr", format!("Clone(bound({l1100}: {l1100}))"), "struct X<T>(T);".into()),
            ("attr", format!("Clone({l1100})"), "struct X<T>(T);".into()),
            ("attr", format!("Add, {l1100}"), "impl Add for X { type Output = X; }".into()),
            ("attr", "Sub".into(), "impl Add for X { type Output = X; }".into()),
        ];
        for (mode, attr, item) in extremes {
            out.push(Request {
                mode: if mode == "attr" { Mode::Attr } else { Mode::Derive },
                attr,
                item,
            });
        }
    }
    // every unsupported / odd item form directly, under several trait lists, both entry points
    for item in crate::gen::alt_items() {
        let all = TRAITS.join(", ");
        for attr in ["", "Clone", "Add, AddAssign", "Clone, dump", "Default(bound(T)), bound(..)", "Unknown", all.as_str()] {
            out.push(Request { mode: Mode::Attr, attr: attr.into(), item: item.to_string() });
            out.push(Request { mode: Mode::Derive, attr: String::new(), item: format!("#[derive_ex({attr})] {item}") });
        }
    }
    // several fields that all have the same dictionary type (what a type-driven special case sees
    // when every field qualifies, or none does)
    for ty in crate::gen::TYPES {
        for item in [
            format!("struct X<'a, T, U, const N: usize>({ty}, {ty});"),
            format!("struct X<'a, T, U, const N: usize> {{ a: {ty}, b: {ty}, c: {ty} }}"),
            format!("struct X<'a, T, U, const N: usize>(u8, {ty});"),
            format!("enum X<'a, T, U, const N: usize> {{ A({ty}, {ty}), #[default] B {{ a: {ty}, b: {ty} }}, C({ty}) }}"),
        ] {
            out.push(Request { mode: Mode::Attr, attr: "Deref, DerefMut, Clone, Debug, Default, Ord, PartialOrd, Eq, PartialEq, Hash, Add, Neg".into(), item: item.clone() });
            out.push(Request { mode: Mode::Derive, attr: String::new(), item: format!("#[derive_ex(DerefMut, Deref, Copy, Clone, Debug, Default, PartialEq, Hash, SubAssign)] {item}") });
        }
    }
    // every helper attribute of the dictionary x where it is placed x every shape
    {
        use quote::ToTokens;
        let all = TRAITS.join(", ");
        for h in crate::gen::helper_attrs() {
            let Ok(attrs) = syn::parse::Parser::parse_str(syn::Attribute::parse_outer, h) else { continue };
            let name = attrs.first().and_then(|a| a.path().get_ident().map(|i| i.to_string())).unwrap_or_default();
            let family = match name.as_str() {
                "ord" | "partial_ord" | "eq" | "partial_eq" | "hash" => "Ord, PartialOrd, Eq, PartialEq, Hash",
                "debug" => "Debug",
                "default" => "Default",
                "derive_ex" => "Clone",
                _ => continue,
            };
            for shape in SHAPES {
                let Ok(base) = syn::parse_str::<syn::DeriveInput>(shape) else { continue };
                for place in 0..4 {
                    let mut d = base.clone();
                    let on_type = place == 0 || place == 3;
                    let on_variant = place == 1 || place == 3;
                    let on_field = place == 2 || place == 3;
                    if on_type {
                        d.attrs.extend(attrs.iter().cloned());
                    }
                    let mut touched = on_type;
                    let mut put = |fields: &mut syn::Fields| {
                        let mut n = 0;
                        for f in fields.iter_mut() {
                            f.attrs.extend(attrs.iter().cloned());
                            n += 1;
                        }
                        n > 0
                    };
                    match &mut d.data {
                        syn::Data::Struct(s) => {
                            if on_field {
                                touched |= put(&mut s.fields);
                            }
                        }
                        syn::Data::Enum(e) => {
                            for v in e.variants.iter_mut() {
                                if on_variant {
                                    v.attrs.extend(attrs.iter().cloned());
                                    touched = true;
                                }
                                if on_field {
                                    touched |= put(&mut v.fields);
                                }
                            }
                        }
                        syn::Data::Union(u) => {
                            if on_field {
                                for f in u.fields.named.iter_mut() {
                                    f.attrs.extend(attrs.iter().cloned());
                                    touched = true;
                                }
                            }
                        }
                    }
                    if !touched {
                        continue;
                    }
                    let item = d.to_token_stream().to_string();
                    let list = if place == 3 { all.as_str() } else { family };
                    out.push(Request { mode: Mode::Attr, attr: list.into(), item: item.clone() });
                    if place != 1 {
                        out.push(Request { mode: Mode::Derive, attr: String::new(), item: format!("#[derive_ex({list})] {item}") });
                    }
                }
            }
        }
    }
    // one helper of every kind x every dictionary type as the type of the field that carries it
    for h in [
        "#[ord(ignore)]", "#[partial_ord(reverse)]", "#[ord(key = $.len())]", "#[eq(key = $)]", "#[partial_eq(by = f)]",
        "#[hash(by = |a, h| a.hash(h))]", "#[ord(by = f, bound(..))]", "#[eq(bound(T))]", "#[hash(ignore)]",
        "#[debug(ignore)]", "#[debug(transparent)]", "#[debug(bound(T))]", "#[default(_)]", "#[default(X::new(), bound())]",
        "#[derive_ex(Clone(bound(T)), Default(bound()))]",
    ] {
        for ty in crate::gen::TYPES {
            let list = "Ord, PartialOrd, Eq, PartialEq, Hash, Debug, Default, Clone";
            out.push(Request { mode: Mode::Attr, attr: list.into(), item: format!("struct X<'a, T, U, const N: usize>({h} {ty}, U);") });
            out.push(Request { mode: Mode::Derive, attr: String::new(), item: format!("#[derive_ex({list})] enum X<'a, T, U, const N: usize> {{ A {{ {h} a: {ty} }}, #[default] B(U) }}") });
        }
    }
    // every ordered pair of traits, and every list with one trait left out, on a few shapes
    // (what the expander does for one trait may depend on which others are derived with it)
    for shape in ["struct X<T>(T, u8);", "enum X<T> { A(T), #[default] B { t: Vec<T> }, C }", "struct X;", "enum X {}", "struct X { #[ord(key = $.len())] a: String }"] {
        for a in TRAITS {
            for b in TRAITS {
                if a != b {
                    out.push(Request { mode: Mode::Attr, attr: format!("{a}, {b}"), item: shape.to_string() });
                }
            }
            let rest: Vec<&str> = TRAITS.iter().copied().filter(|t| t != a).collect();
            out.push(Request { mode: Mode::Attr, attr: rest.join(", "), item: shape.to_string() });
            out.push(Request { mode: Mode::Derive, attr: String::new(), item: format!("#[derive_ex({})] {shape}", rest.join(", ")) });
        }
    }
    // two helper attributes of one family at two levels: (type, field), (variant, field) and,
    // outside the comparison family (the key+by grid covers that), both on one field
    {
        let fam_of = |h: &str| -> &'static str {
            let name = h.trim_start_matches("#[").split(|c: char| !(c.is_alphanumeric() || c == '_')).next().unwrap_or("").to_string();
            match name.as_str() {
                "ord" | "partial_ord" | "eq" | "partial_eq" | "hash" => "cmp",
                "debug" => "debug",
                "default" => "default",
                "derive_ex" => "derive_ex",
                _ => "",
            }
        };
        let hs = crate::gen::helper_attrs();
        for h1 in hs {
            let f = fam_of(h1);
            if f.is_empty() {
                continue;
            }
            let list = match f {
                "cmp" => "Ord, PartialOrd, Eq, PartialEq, Hash",
                "debug" => "Debug",
                "default" => "Default",
                _ => "Clone, Default",
            };
            let b_marker = if f == "default" { "" } else { "#[default] " };
            for h2 in hs {
                if fam_of(h2) != f {
                    continue;
                }
                let mut items = vec![
                    format!("{h1} struct X<T>({h2} T);"),
                    format!("enum X<T> {{ {h1} A({h2} T), {b_marker}B }}"),
                ];
                // the two helpers on SIBLING fields (tuple and named)
                items.push(format!("struct X<T>({h1} T, {h2} u8);"));
                items.push(format!("enum X<T> {{ A {{ {h1} a: T, {h2} b: u8, c: T }}, {b_marker}B }}"));
                if f != "cmp" {
                    items.push(format!("struct X<T>({h1} {h2} T, u8);"));
                    items.push(format!("{h1} enum X<T> {{ A {{ {h2} a: T, b: u8 }}, {b_marker}B }}"));
                }
                for item in items {
                    out.push(Request { mode: Mode::Attr, attr: list.into(), item });
                }
            }
        }
    }
    // trait lists that succeed for some entries and fail for a later (or earlier) one, with
    // `dump` / `bound` in effect or not: what an early return may leave behind for the next request
    for ok in ["Clone", "Clone(dump)", "Debug(bound(T))", "Default", "PartialEq", "Hash(dump)", "Ord, PartialOrd, Eq, PartialEq"] {
        for bad in ["Add", "Deref", "Unknown", "Neg", "AddAssign(dump)", "Clone(unknown)", "Copy(bound(T:))"] {
            for common in ["", ", dump", ", bound(T)", ", bound(..), dump"] {
                for item in ["enum X<T> { A(T), #[default] B }", "struct X<T>(T, u8);", "struct X;", "enum X {}", "impl Add for X { type Output = X; }"] {
                    out.push(Request { mode: Mode::Attr, attr: format!("{ok}, {bad}{common}"), item: item.into() });
                    out.push(Request { mode: Mode::Attr, attr: format!("{bad}, {ok}{common}"), item: item.into() });
                    if !item.starts_with("impl") {
                        out.push(Request { mode: Mode::Derive, attr: String::new(), item: format!("#[derive_ex({ok}, {bad}{common})] {item}") });
                    }
                }
            }
        }
    }
    // every generic parameter and where predicate of the dictionaries on a struct, an enum and an
    // impl, alone and next to an ordinary parameter, all traits
    {
        let all = TRAITS.join(", ");
        for g in crate::gen::GENERIC_PARAMS {
            for item in [
                format!("struct X<{g}>(u8);"),
                format!("struct X<{g}, Z>(Z, Vec<Z>);"),
                format!("enum X<Z, {g}> {{ A(Z), #[default] B {{ z: Option<Z> }} }}"),
            ] {
                out.push(Request { mode: Mode::Attr, attr: all.clone(), item: item.clone() });
                out.push(Request { mode: Mode::Derive, attr: String::new(), item: format!("#[derive_ex(Clone, Debug, Default, Ord, PartialOrd, Eq, PartialEq, Hash, Add, Neg)] {item}") });
            }
            out.push(Request { mode: Mode::Attr, attr: "Add, AddAssign".into(), item: format!("impl<{g}> Add<&X<Z>> for X<Z> {{ type Output = X<Z>; }}") });
            out.push(Request { mode: Mode::Attr, attr: "Sub".into(), item: format!("impl<Z, {g}> SubAssign for X<Z> {{ }}") });
        }
        for w in crate::gen::WHERE_PREDS {
            for item in [
                format!("struct X<'a, 'b, T, const N: usize>(&'a T, [u8; N]) where {w};"),
                format!("enum X<'a, 'b, T, const N: usize> where {w}, {{ A(&'b T), #[default] B }}"),
            ] {
                out.push(Request { mode: Mode::Attr, attr: all.clone(), item: item.clone() });
                out.push(Request { mode: Mode::Derive, attr: String::new(), item: format!("#[derive_ex(Clone, Debug, Default, PartialOrd, PartialEq, Hash, Sub)] {item}") });
            }
            out.push(Request { mode: Mode::Attr, attr: "Add, AddAssign".into(), item: format!("impl<'a, 'b, T, const N: usize> Add<&Self> for X<T> where {w} {{ type Output = Self; }}") });
        }
    }
    // every hostile identifier as the type name, a field name, a variant name, a type parameter, a
    // lifetime and a const parameter (the names the generator uses for its own locals and generics,
    // raw identifiers, non-ASCII and very long names)
    {
        use crate::gen::ident_text;
        let list = "Clone, Debug, Default, Ord, PartialOrd, Eq, PartialEq, Hash, Add, AddAssign, Neg";
        for id in crate::gen::IDENTS {
            let id = ident_text(id);
            if id == "_" || id == "__" {
                continue;
            }
            let bare = id.trim_start_matches("r#");
            for item in [
                format!("struct {id}<T>(T, u8);"),
                format!("struct X<T> {{ {id}: T, #[ord(key = $.0)] other_field: (u8, u8) }}"),
                format!("enum X<T> {{ {id}(T), #[default] Other {{ {id}: u8 }} }}"),
                format!("struct X<{id}>({id}, Vec<{id}>);"),
                format!("struct X<'{bare}, T>(&'{bare} T);"),
                format!("struct X<const {id}: usize>([u8; {id}]);"),
            ] {
                out.push(Request { mode: Mode::Attr, attr: list.into(), item: item.clone() });
            }
            out.push(Request { mode: Mode::Derive, attr: String::new(), item: format!("#[derive_ex({list})] enum {id}<{id}> {{ {id} {{ {id}: {id} }} }}") });
            out.push(Request { mode: Mode::Attr, attr: "Add, AddAssign".into(), item: format!("impl<{id}> Add<{id}> for X<{id}> {{ type Output = {id}; }}") });
        }
    }
    // helper VALUE x TYPE of the field that carries it: every literal-like value on every dictionary
    // type, every value / key expression on every primitive-like type (a type-driven special case
    // of a value - "an integer default on a float field" - needs both at once)
    {
        let literal_values = [
            "1", "0", "-1", "1_000", "0x10", "0o17", "0b101", "1u8", "1i64", "1.5", "1.", "1e3", "-1.5e-3", "1f32", "0x1f_u8",
            "\"s\"", "\"\"", "'c'", "b'x'", "b\"x\"", "r\"raw\"", "c\"x\"", "true", "false", "340282366920938463463374607431768211455", "_",
        ];
        let prim_types = ["f64", "f32", "bool", "char", "String", "&'a str", "u8", "i128", "usize", "[u8; 3]", "()", "Option<u8>", "str", "Box<str>", "T"];
        for v in literal_values {
            for ty in crate::gen::TYPES {
                out.push(Request { mode: Mode::Attr, attr: "Default, Clone".into(), item: format!("struct X<'a, T, U, const N: usize> {{ #[default({v})] a: {ty}, b: U }}") });
            }
            for ty in prim_types {
                out.push(Request { mode: Mode::Derive, attr: String::new(), item: format!("#[derive_ex(Default)] enum X<'a, T> {{ A, #[default] B(#[default({v})] {ty}, #[default({v}, bound(T))] {ty}) }}") });
            }
        }
        for ty in prim_types {
            for e in VALUE_EXPRS {
                out.push(Request { mode: Mode::Attr, attr: "Default".into(), item: format!("struct X<'a, T>(#[default({e})] {ty});") });
            }
            for e in KEY_EXPRS {
                out.push(Request { mode: Mode::Attr, attr: "Ord, PartialOrd, Eq, PartialEq, Hash".into(), item: format!("struct X<'a, T>(#[ord(key = {e})] {ty}, #[hash(by = {e})] {ty});") });
            }
        }
    }
    // every trait x every bound(..) form (per trait and common) on single-field and two-field
    // generic items with and without a where clause of their own
    {
        let bounds = ["bound()", "bound(..)", "bound(T)", "bound(T: Clone)", "bound(T, T: Copy)", "bound(T: Copy, ..)", "bound(U)", "bound(T,)", "bound(Vec<T>)", "bound('a: 'a)"];
        for tr in TRAITS {
            for b in bounds {
                for item in [
                    "struct X<T>(T) where T: Copy;",
                    "struct X<T>(T);",
                    "struct X<'a, T, U>(&'a T, U) where U: Clone,;",
                    "enum X<T> where T: Copy { A(T), #[default] B }",
                ] {
                    out.push(Request { mode: Mode::Attr, attr: format!("{tr}({b})"), item: item.into() });
                    out.push(Request { mode: Mode::Attr, attr: format!("{tr}, {b}"), item: item.into() });
                }
                out.push(Request { mode: Mode::Derive, attr: String::new(), item: format!("#[derive_ex({tr}({b}), bound(T: Copy))] struct X<T>(#[derive_ex({tr}({b}))] T) where T: Copy;") });
            }
        }
    }
    // wide items whose fields each carry a helper of one family (cycled through the family)
    {
        let hs = crate::gen::helper_attrs();
        for (fam, list) in [
            (vec!["ord", "partial_ord", "eq", "partial_eq", "hash"], "Ord, PartialOrd, Eq, PartialEq, Hash"),
            (vec!["debug"], "Debug"),
            (vec!["default"], "Default"),
            (vec!["derive_ex"], "Clone, Default, Debug"),
        ] {
            let members: Vec<&str> = hs
                .iter()
                .copied()
                .filter(|h| fam.iter().any(|n| h.starts_with(&format!("#[{n}(")) || h.starts_with(&format!("#[{n}]"))))
                .collect();
            if members.is_empty() {
                continue;
            }
            for n in [9usize, 17, 40] {
                for start in 0..3 {
                    let fields: Vec<String> = (0..n).map(|i| format!("{} f{i}: T{}", members[(start + i) % members.len()], i % 3)).collect();
                    let variants: Vec<String> = (0..n).map(|i| format!("{} V{i}({} T{})", if fam[0] == "default" { "" } else { members[(start + i + 1) % members.len()] }, members[(start + i) % members.len()], i % 3)).collect();
                    out.push(Request { mode: Mode::Attr, attr: list.into(), item: format!("struct X<T0, T1, T2> {{ {} }}", fields.join(", ")) });
                    out.push(Request { mode: Mode::Derive, attr: String::new(), item: format!("#[derive_ex({list})] enum X<T0, T1, T2> {{ #[default] D, {} }}", variants.join(", ")) });
                }
            }
        }
    }
    // `by` / `key` helpers on fields with hostile names, in structs and enum variants
    {
        use crate::gen::ident_text;
        for id in crate::gen::IDENTS {
            let id = ident_text(id);
            if id == "_" || id == "__" {
                continue;
            }
            for (h1, h2) in [("#[ord(by = f)]", "#[hash(by = g)]"), ("#[eq(key = $.len())]", "#[partial_ord(by = |a, b| a.partial_cmp(b))]"), ("#[debug(transparent)]", "#[default(_)]")] {
                out.push(Request { mode: Mode::Attr, attr: "Ord, PartialOrd, Eq, PartialEq, Hash, Debug, Default".into(), item: format!("struct X<T> {{ {h1} {h2} {id}: T }}") });
                out.push(Request { mode: Mode::Derive, attr: String::new(), item: format!("#[derive_ex(Ord, PartialOrd, Eq, PartialEq, Hash, Debug)] enum X<T> {{ {id} {{ {h1} {id}: T, {h2} other_: u8 }}, B }}") });
            }
        }
    }
    // explicit discriminants of every expression class
    for d in ["9223372036854775807", "-9223372036854775808", "9223372036854775806", "18446744073709551615", "340282366920938463463374607431768211455", "255", "256", "-129", "65535", "0xFFFF_FFFF_FFFF_FFFF", "0x7fff_ffff_ffff_ffff", "1_000", "1isize", "255u8", "-1i8", "0", "-0", "(9223372036854775807)", "1", "-1", "1 + 2", "Self::K as isize", "{ 1 }", "m!()", "0x10", "1u8 as isize", "b'a' as isize", "(2)", "!0", "N", "K::V", "1 << 3", "if true { 1 } else { 2 }", "'a' as isize", "isize::MAX", "r#type", "\u{e9}"] {
        for item in [
            format!("enum X {{ A = {d}, B }}"),
            format!("enum X {{ A, #[default] B = {d}, C(u8) = 7, D {{ a: u8 }} = {d} }}"),
            format!("#[repr(u8)] enum X<T> {{ A(T) = {d}, #[default] B = 0 }}"),
        ] {
            out.push(Request { mode: Mode::Attr, attr: "Clone, Copy, Debug, Default, Ord, PartialOrd, Eq, PartialEq, Hash".into(), item: item.clone() });
            out.push(Request { mode: Mode::Derive, attr: String::new(), item: format!("#[derive_ex(PartialOrd, PartialEq, Hash, Clone)] {item}") });
        }
    }
    // impl path: every self type of the impl grid x every where predicate of the dictionary
    // (predicates that mention `Self`, with and without a `for<..>` binder of their own)
    for st in ["X", "&X", "&'a X", "&mut X", "dyn A + B", "&(dyn A + B)", "X<T>", "[X; 2]", "(X, X)", "Box<dyn A + B>", "*const X", "&&X", "&[X]", "fn(X) -> X"] {
        for w in crate::gen::WHERE_PREDS {
            out.push(Request { mode: Mode::Attr, attr: "Add, AddAssign".into(), item: format!("impl<'a, T> Add for {st} where {w} {{ type Output = X; }}") });
            out.push(Request { mode: Mode::Attr, attr: "Sub".into(), item: format!("impl<'a, T> SubAssign<&Self> for {st} where {w}, T: Copy {{ }}") });
        }
    }
    // `macro_rules!` fragments in every other position they can take in an item: visibility
    // (also the empty one), discriminants, array lengths, const defaults, where clauses, trait
    // paths, foreign attributes (`$l:literal`, `$e:expr`, `$m:meta`), trait names in the list
    for item in [
        "__ng(pub) struct X(__ng(pub(crate)) u8, __ng() String);",
        "__ng() struct X { __ng() a: u8, __ng(pub(in crate::m)) b: __ng(Vec<u8>) }",
        "__ng(pub) enum X { A = __ng(1), #[default] B = __ng(2 * 3), C = __ng(-1) }",
        "__ng() enum X<T> { A(__ng() T), #[default] B { __ng(pub) b: u8 } }",
        "struct X<const N: usize = __ng(3)>([u8; __ng(N + 1)], [u8; __ng(2)]);",
        "struct X<T>(T) where __ng(T): __ng(Clone), __ng(Vec<T>): Default;",
        "#[doc = __ng(\"text\")] struct X(#[doc = __ng(concat!(\"a\", \"b\"))] u8);",
        "#[cfg(__ng(any(unix, windows)))] struct X { #[cfg(__ng(unix))] a: u8, #[cfg_attr(__ng(test), allow(unused))] b: u8 }",
        "#[cfg_attr(__ng(all()), derive_ex(Debug))] #[repr(__ng(C))] struct X(#[allow(__ng(dead_code))] u8);",
        "#[derive_ex(__ng(Clone))] struct X<T>(#[derive_ex(__ng(Default)(bound(__ng(T))))] T);",
        "enum X { #[doc = __ng(\"d\")] A(#[cfg(__ng(all()))] u8), #[default] B }",
        "impl __ng(Add) for X { type Output = __ng(X); }",
        "impl<T> __ng(::core::ops::Sub)<__ng(&T)> for __ng(&X<T>) where __ng(T): Copy { type Output = X<T>; }",
        "__ng(pub) struct X<'a, T>(#[default(__ng(\"s\"))] &'a str, #[ord(key = __ng(1 + 1))] T);",
    ] {
        for attr in ["Clone, Default, Debug, Ord, PartialOrd, Eq, PartialEq, Hash", "Add, AddAssign", "Clone", "Deref", "__ng(Clone), __ng(Default)", ""] {
            out.push(Request { mode: Mode::Attr, attr: attr.into(), item: item.into() });
            if !item.starts_with("impl") {
                out.push(Request { mode: Mode::Derive, attr: String::new(), item: format!("#[derive_ex({attr})] {item}") });
            }
        }
    }
    // numeric thresholds: field / variant / parameter counts around 10, 13, 32, 64, 128, 256, 300
    for n in [10usize, 13, 32, 33, 64, 65, 128, 129, 255, 256, 257, 300] {
        let tuple_fields: Vec<String> = (0..n).map(|i| if i % 5 == 0 { "T".to_string() } else { "u8".to_string() }).collect();
        let named_fields: Vec<String> = (0..n).map(|i| format!("f{i}: u8")).collect();
        let unit_variants: Vec<String> = (0..n).map(|i| format!("V{i}")).collect();
        let mixed_variants: Vec<String> = (0..n).map(|i| match i % 3 { 0 => format!("V{i}"), 1 => format!("V{i}(u8, T)"), _ => format!("V{i} {{ a: u8 }}") }).collect();
        let items = [
            format!("struct X<T>({});", tuple_fields.join(", ")),
            format!("struct X {{ {} }}", named_fields.join(", ")),
            format!("enum X {{ #[default] {} }}", unit_variants.join(", ")),
            format!("enum X<T> {{ #[default] {} }}", mixed_variants.join(", ")),
        ];
        for item in items {
            for list in ["Clone, Debug, Default, Ord, PartialOrd, Eq, PartialEq, Hash", "Add, Neg, SubAssign", "PartialOrd, PartialEq", "Hash, Debug(dump)"] {
                out.push(Request { mode: Mode::Attr, attr: list.into(), item: item.clone() });
            }
            out.push(Request { mode: Mode::Derive, attr: String::new(), item: format!("#[derive_ex(Clone, PartialOrd, PartialEq, Hash, Default)] {item}") });
        }
        if n <= 129 {
            let params: Vec<String> = (0..n).map(|i| format!("P{i}")).collect();
            let preds: Vec<String> = (0..n).map(|i| format!("P{i}: Copy")).collect();
            out.push(Request { mode: Mode::Attr, attr: "Clone, PartialEq, Add".into(), item: format!("struct X<{}>(P0, P{}) where {};", params.join(", "), n - 1, preds.join(", ")) });
            out.push(Request { mode: Mode::Attr, attr: format!("Clone(bound({}))", params.join(", ")), item: format!("struct X<{}>(P0);", params.join(", ")) });
        }
    }
    // depth: types, bound(..) contents and helper expressions nested 8 / 20 / 40 levels
    for depth in [8usize, 20, 40] {
        let wrap = |open: &str, close: &str, core: &str| -> String { format!("{}{core}{}", open.repeat(depth), close.repeat(depth)) };
        let mut types = vec![
            wrap("&", "", "T"),
            wrap("Option<", ">", "T"),
            wrap("(", ",)", "T"),
            wrap("[", "; 1]", "T"),
            wrap("fn(", ")", "T"),
            wrap("*const ", "", "T"),
            wrap("Box<dyn Fn(", ")>", "T"),
            wrap("&'a mut ", "", "(dyn A + B)"),
            wrap("X<", ", u8>", "T"),
        ];
        // parentheses (and None-delimited groups) around every kind of core, and alternating
        for core in ["T", "&T", "&'a T", "&mut X", "X", "dyn A + B", "[T]", "fn(T)", "*const X", "(T, u8)"] {
            types.push(wrap("(", ")", core));
            types.push(wrap("__ng(", ")", core));
            types.push(wrap("(&", ")", core));
        }
        for ty in &types {
            out.push(Request { mode: Mode::Attr, attr: TRAITS.join(", "), item: format!("struct X<'a, T>({ty});") });
            out.push(Request { mode: Mode::Derive, attr: String::new(), item: format!("#[derive_ex(Clone, Debug, Default, PartialOrd, PartialEq, Hash)] enum X<'a, T> {{ A({ty}), #[default] B {{ b: {ty} }} }}") });
            out.push(Request { mode: Mode::Attr, attr: format!("Clone(bound({ty})), Default(bound({ty}: Default, ..))"), item: "struct X<'a, T>(T, &'a u8);".into() });
            out.push(Request { mode: Mode::Attr, attr: "Add, AddAssign".into(), item: format!("impl<'a, T> Add<{ty}> for {ty} {{ type Output = {ty}; }}") });
        }
        let exprs = [
            wrap("(", ")", "$"),
            wrap("{ ", " }", "$"),
            wrap("f(", ")", "$"),
            wrap("|a| ", "", "$"),
            wrap("&", "", "$"),
            wrap("-", "", "1"),
            wrap("[", "]", "1"),
            wrap("if c { ", " } else { 0 }", "1"),
            wrap("m!(", ")", "$"),
        ];
        for e in &exprs {
            out.push(Request { mode: Mode::Attr, attr: "Ord, PartialOrd, Eq, PartialEq, Hash".into(), item: format!("struct X(#[ord(key = {e})] u8, #[hash(by = {e})] u8);") });
            let v = e.replace('$', "1");
            out.push(Request { mode: Mode::Attr, attr: "Default".into(), item: format!("#[default({v})] struct X(#[default({v})] u8);") });
        }
    }
    // alphabet exhaustion: every single-letter name of a namespace is taken (what a search for a
    // fresh `'a`, `T`, `f` ... runs into), or all but one
    {
        let lower: Vec<char> = ('a'..='z').collect();
        let upper: Vec<char> = ('A'..='Z').collect();
        let lifetimes = |skip: Option<char>| lower.iter().filter(|c| Some(**c) != skip).map(|c| format!("'{c}")).collect::<Vec<_>>().join(", ");
        let types = |skip: Option<char>| upper.iter().filter(|c| Some(**c) != skip).map(|c| c.to_string()).collect::<Vec<_>>().join(", ");
        let mut items: Vec<String> = Vec::new();
        for skip in [None, Some('a'), Some('b'), Some('z'), Some('m')] {
            items.push(format!("struct X<{}, T>(T, &'a u8);", lifetimes(skip).replace("'a, ", "'a, ").trim_start_matches(", ")));
            items.push(format!("enum X<{}, T> {{ A(T), #[default] B }}", lifetimes(skip)));
        }
        for skip in [None, Some('T'), Some('H'), Some('A'), Some('Z')] {
            items.push(format!("struct X<{}>(A, Z);", types(skip)).replace("(A, Z)", if skip == Some('A') || skip == Some('Z') { "(B, Y)" } else { "(A, Z)" }));
            items.push(format!("enum X<{}> {{ V(B), #[default] W {{ y: Y }} }}", types(skip)));
        }
        items.push(format!("struct X<{}, {}>(&'a A, &'z Z);", lifetimes(None), types(None)));
        items.push(format!("struct X {{ {} }}", lower.iter().map(|c| format!("{c}: u8")).collect::<Vec<_>>().join(", ")));
        items.push(format!("enum X {{ #[default] {} }}", upper.iter().map(|c| format!("{c}(u8)")).collect::<Vec<_>>().join(", ")));
        items.push(format!("struct X<{}>([u8; A]);", upper.iter().map(|c| format!("const {c}: usize")).collect::<Vec<_>>().join(", ")));
        items.push(format!("impl<{}, T> Add<&'a T> for &'z X<T> {{ type Output = X<T>; }}", lifetimes(None)));
        for item in items {
            for list in ["Add, AddAssign, Neg, Not", "Clone, Debug, Default, Ord, PartialOrd, Eq, PartialEq, Hash", "Sub", "Deref"] {
                out.push(Request { mode: Mode::Attr, attr: list.into(), item: item.clone() });
            }
            if !item.starts_with("impl") {
                out.push(Request { mode: Mode::Derive, attr: String::new(), item: format!("#[derive_ex(Add, SubAssign, Neg, Clone, PartialOrd, PartialEq, Hash)] {item}") });
            }
        }
    }
    // the OTHER attributes an item can carry next to derive_ex's: each one on the type, on every
    // variant, on every field and on every generic parameter of a few shapes; inner attributes and
    // attributes on the items of an impl body
    {
        let foreign = [
            "#[derive(Clone, Debug)]", "#[derive()]", "#[derive(Ex)]", "#[repr(u8)]", "#[repr(C, packed)]", "#[repr(transparent)]",
            "#[non_exhaustive]", "#[cfg(test)]", "#[cfg(not(test))]", "#[cfg(any())]", "#[must_use]", "#[automatically_derived]",
            "#[allow(dead_code)]", "#[deny(warnings)]", "#[deprecated(note = \"x\")]", "#[doc(hidden)]", "#[doc = r\"raw\"]",
            "/** block doc */", "#[serde(rename = \"x\")]", "#[inline]", "#[path = \"x\"]", "#[rustfmt::skip]",
            "#[cfg_attr(test, derive(PartialEq), derive_ex(Eq))]", "#[cfg_attr(all(), ord(ignore))]", "#[derive_ex::derive_ex(Clone)]",
            "#[::derive_ex::derive_ex(Default)]", "#[derive_ex{Debug}]", "#[derive_ex[Debug]]", "#[macro_use]", "#[test]", "#[global_allocator]",
        ];
        let shapes = [
            "struct X<T>(T, u8);",
            "struct X<T> { a: T, #[ord(key = $.len())] b: String }",
            "enum X<T> { A(T), #[default] B { b: u8 }, C }",
            "struct X;",
            "union X { a: u8, b: u32 }",
        ];
        for fa in foreign {
            let Ok(attrs) = syn::parse::Parser::parse_str(syn::Attribute::parse_outer, fa) else { continue };
            for shape in shapes {
                let Ok(base) = syn::parse_str::<syn::DeriveInput>(shape) else { continue };
                for place in 0..4 {
                    use quote::ToTokens;
                    let mut d = base.clone();
                    let mut touched = false;
                    if place == 0 {
                        d.attrs.splice(0..0, attrs.iter().cloned());
                        touched = true;
                    }
                    if place == 3 {
                        for gp in d.generics.params.iter_mut() {
                            match gp {
                                syn::GenericParam::Type(t) => t.attrs.extend(attrs.iter().cloned()),
                                syn::GenericParam::Lifetime(l) => l.attrs.extend(attrs.iter().cloned()),
                                syn::GenericParam::Const(c) => c.attrs.extend(attrs.iter().cloned()),
                            }
                            touched = true;
                        }
                    }
                    let on_fields = |fields: &mut syn::Fields| -> bool {
                        let mut any = false;
                        for f in fields.iter_mut() {
                            f.attrs.extend(attrs.iter().cloned());
                            any = true;
                        }
                        any
                    };
                    match &mut d.data {
                        syn::Data::Struct(st) if place == 2 => touched |= on_fields(&mut st.fields),
                        syn::Data::Enum(e) => {
                            for v in e.variants.iter_mut() {
                                if place == 1 {
                                    v.attrs.extend(attrs.iter().cloned());
                                    touched = true;
                                }
                                if place == 2 {
                                    touched |= on_fields(&mut v.fields);
                                }
                            }
                        }
                        syn::Data::Union(u) if place == 2 => {
                            for f in u.fields.named.iter_mut() {
                                f.attrs.extend(attrs.iter().cloned());
                                touched = true;
                            }
                        }
                        _ => {}
                    }
                    if !touched {
                        continue;
                    }
                    let item = d.to_token_stream().to_string();
                    for list in ["Clone, Debug, Default, Ord, PartialOrd, Eq, PartialEq, Hash", "Add, Neg"] {
                        out.push(Request { mode: Mode::Attr, attr: list.into(), item: item.clone() });
                    }
                    out.push(Request { mode: Mode::Derive, attr: String::new(), item: format!("#[derive_ex(Clone, Debug, Default, PartialOrd, PartialEq, Hash)] {item}") });
                }
            }
            out.push(Request { mode: Mode::Attr, attr: "Add, AddAssign".into(), item: format!("{fa} impl Add for X {{ #![allow(unused)] {fa} type Output = X; {fa} fn add(self, rhs: X) -> X {{ self }} }}") });
            out.push(Request { mode: Mode::Attr, attr: "Sub".into(), item: format!("impl<{fa} T> SubAssign<T> for X<T> {{ {fa} fn sub_assign(&mut self, rhs: T) {{}} }}") });
        }
        for inner in ["#![derive_ex(Sub)]", "#![allow(unused)]", "#![doc = \"d\"]", "//! inner doc\n", "#![cfg(x)]", "#![ord(ignore)]"] {
            out.push(Request { mode: Mode::Attr, attr: "Add, AddAssign".into(), item: format!("impl Add for X {{ {inner} type Output = X; fn add(self, rhs: X) -> X {{ self }} }}") });
        }
    }
    // wide AND heterogeneous: 21 .. 64 fields drawn (fixed pseudo-random arrangements) from several
    // types that mention differently ordered parameters - what sorting, de-duplicating or grouping
    // of bounds sees only with many distinct keys in an irregular order
    {
        let mut x: u64 = 0x9e37_79b9_7f4a_7c15;
        let mut next = |m: usize| -> usize {
            x = x.wrapping_mul(6364136223846793005).wrapping_add(1442695040888963407);
            ((x >> 33) as usize) % m
        };
        for decl in ["T, E", "U, T", "B, A, C", "Z, Y, X, W", "T"] {
            let ps: Vec<&str> = decl.split(", ").collect();
            for n in [21usize, 24, 33, 48, 64] {
                for _arrangement in 0..6 {
                    let mut fields = Vec::new();
                    for _ in 0..n {
                        let p = ps[next(ps.len())];
                        let q = ps[next(ps.len())];
                        fields.push(match next(9) {
                            0 | 1 => p.to_string(),
                            2 => format!("Option<{p}>"),
                            3 => format!("Vec<{q}>"),
                            4 => format!("{p}::Item"),
                            5 => format!("({p}, {q})"),
                            6 => format!("[{q}; 2]"),
                            7 => "u8".to_string(),
                            _ => format!("Box<{p}>"),
                        });
                    }
                    let tuple = format!("struct X<{decl}>({});", fields.join(", "));
                    let named = format!("struct X<{decl}> {{ {} }}", fields.iter().enumerate().map(|(i, t)| format!("f{i}: {t}")).collect::<Vec<_>>().join(", "));
                    let en = format!("enum X<{decl}> {{ #[default] D, {} }}", fields.chunks(3).enumerate().map(|(i, c)| format!("V{i}({})", c.join(", "))).collect::<Vec<_>>().join(", "));
                    for (item, list) in [(tuple, "Clone, PartialEq, Add"), (named, "Clone, Debug, Default, Ord, PartialOrd, Eq, PartialEq, Hash"), (en, "Clone, Debug, PartialOrd, PartialEq, Hash")] {
                        out.push(Request { mode: Mode::Attr, attr: list.into(), item: item.clone() });
                        if next(3) == 0 {
                            out.push(Request { mode: Mode::Derive, attr: String::new(), item: format!("#[derive_ex(Clone, Hash)] {item}") });
                        }
                    }
                }
            }
        }
    }
    // literals whose CONTENT looks like syntax (what a hand-written scanner over printed tokens
    // trips on): as default values and inside key expressions, with and without `dump`
    for lit in ["'}'", "'{'", "')'", "'('", "']'", "'\"'", "'\\''", "'\\\\'", "b'}'", "b'{'", "\"}\"", "\"{\"", "\"\\\"}\"", "\"//\"", "\"/*\"", "\"*/\"", "\";\"", "\",\"", "\"\\n}\"", "r\"}\"", "r#\"\"}\"#", "b\"}\"", "'\\u{7d}'", "\"$\"", "'$'", "\"__placeholder\""] {
        for dump in ["", ", dump"] {
            out.push(Request { mode: Mode::Attr, attr: format!("Default, Debug{dump}"), item: format!("struct X(#[default({lit})] char, #[default({lit}, bound())] u8);") });
            out.push(Request { mode: Mode::Attr, attr: format!("Default{dump}"), item: format!("#[default({lit})] enum X {{ A, B }}") });
            out.push(Request { mode: Mode::Derive, attr: String::new(), item: format!("#[derive_ex(Default(dump), PartialEq{dump})] enum X {{ #[default] A {{ #[default({lit})] a: char, #[partial_eq(key = $ == {lit})] b: char }} }}") });
            out.push(Request { mode: Mode::Attr, attr: format!("Ord, PartialOrd, Eq, PartialEq, Hash{dump}"), item: format!("struct X(#[ord(key = ($, {lit}))] u8, #[hash(by = |a, h| {lit}.hash(h))] u8);") });
        }
    }
    // every dictionary type inside bound(..), bare and as the bounded type of a predicate
    for ty in crate::gen::TYPES {
        for attr in [format!("Clone(bound({ty}))"), format!("Clone, Default, bound({ty}: Clone, ..)"), format!("Add(bound({ty}, T: Copy))")] {
            out.push(Request { mode: Mode::Attr, attr, item: "struct X<'a, T, U, const N: usize>(T, &'a U, [u8; N]);".into() });
        }
        out.push(Request { mode: Mode::Derive, attr: String::new(), item: format!("#[derive_ex(PartialEq, Hash)] enum X<'a, T, U, const N: usize> {{ A(#[eq(bound({ty}))] T), B {{ #[hash(bound({ty}: Hash))] u: &'a U }} }}") });
    }
    // one identifier, two spellings (`T` / `r#T`) between declaration and use
    for (decl, used) in [("T", "r#T"), ("r#T", "T"), ("r#T", "r#T")] {
        for item in [
            format!("struct X<{decl}>({used}, Vec<{used}>);"),
            format!("struct X<{decl}: Clone> {{ a: {used}, b: Option<{used}> }} "),
            format!("enum X<{decl}> {{ A({used}), #[default] B {{ b: [{used}; 2] }} }}"),
            format!("struct X<const {decl}: usize>([u8; {used}], [u8; {{ {used} + 1 }}]);"),
            format!("struct X<{decl}>(#[ord(bound({used}))] {used}) where {used}: Copy;"),
            format!("struct X<{decl}> {{ {decl}: {used}, #[default({used}::new())] r#b: u8 }}"),
        ] {
            out.push(Request { mode: Mode::Attr, attr: "Clone, Debug, Default, Ord, PartialOrd, Eq, PartialEq, Hash, Add, Neg".into(), item: item.clone() });
            out.push(Request { mode: Mode::Derive, attr: String::new(), item: format!("#[derive_ex(Clone, Default, PartialEq, Hash, Sub)] {item}") });
        }
        out.push(Request { mode: Mode::Attr, attr: "Add, AddAssign".into(), item: format!("impl<{decl}> Add<{used}> for X<{used}> {{ type Output = {used}; }}") });
        out.push(Request { mode: Mode::Attr, attr: format!("Clone(bound({used})), Default(bound({decl}: Default))"), item: format!("struct X<{decl}, U>({used}, U);") });
    }
    // impl bodies: with / without a literal `type Output`, with macro items, duplicates, generic
    // or bounded associated types - under every combination of the binary and the assign form
    for body in [
        "", "m!();", "output_is!(X); fn add(self, rhs: X) -> X { self }", "type Output = X;", "type Output = X; m!();",
        "m! { type Output = X; }", "type Out = X;", "const C: u8 = 0;", "fn add(self, rhs: X) -> X { self }", "type Output = m!();",
        "type Output = X; type Output = Y;", "type Output<T> = X;", "type Output = X where Self: Sized;", "type Output: Copy = X;",
        "type Output = Self; fn add(self, rhs: Self) -> Self { self } fn add_assign(&mut self, rhs: Self) {}", "#[cfg(x)] type Output = X; #[cfg(not(x))] type Output = Y;",
    ] {
        for head in ["impl Add for X", "impl Add<&X> for &X", "impl<T> Add<T> for X<T>", "impl AddAssign for X", "impl AddAssign<&X> for X", "impl Neg for X"] {
            for attr in ["Add", "AddAssign", "Add, AddAssign", "AddAssign, Add", "Add, dump", "Add(dump), AddAssign", "", "Neg", "Sub, SubAssign"] {
                out.push(Request { mode: Mode::Attr, attr: attr.into(), item: format!("{head} {{ {body} }}") });
            }
        }
    }
    // method signatures inside an impl item: receiver form x PATTERN of the right-hand parameter x
    // header x trait list, and qualifiers / attributes / generics on the method (what the expander
    // reads out of the user's method - names, patterns, types - it has to handle in every form)
    {
        let receivers = [
            "self", "mut self", "&self", "&mut self", "&'a mut self", "self: Self", "mut self: Self", "self: &mut Self", "self: Box<Self>", "_: Self", "this: Self", "",
        ];
        let pats = [
            "rhs", "mut rhs", "_", "other", "ref r", "ref mut r", "(a, b)", "r @ _", "mut r @ _", "&r", "&mut r", "X { a }", "X(a, ..)", "[a]", "r#type", "mut r#rhs",
            "#[allow(unused)] rhs", "#[cfg(x)] rhs", "__rhs", "self_", "state", "m!()", "(mut a, ref b)", "box_", "..",
        ];
        let heads = [
            ("impl Add for X", "add", "X", "-> X"),
            ("impl AddAssign for X", "add_assign", "X", ""),
            ("impl<'a> Add<&'a X> for &'a X", "add", "&'a X", "-> X"),
            ("impl<T> SubAssign<T> for X<T>", "sub_assign", "T", ""),
        ];
        for (head, m, ty, ret) in heads {
            let out_ty = if ret.is_empty() { "" } else { "type Output = X;" };
            for attr in ["Add, AddAssign", "Add", "AddAssign", "Sub, SubAssign", ""] {
                for recv in receivers {
                    for pat in pats {
                        let sep = if recv.is_empty() { "" } else { ", " };
                        out.push(Request {
                            mode: Mode::Attr,
                            attr: attr.into(),
                            item: format!("{head} {{ {out_ty} fn {m}({recv}{sep}{pat}: {ty}) {ret} {{ loop {{}} }} }}"),
                        });
                    }
                }
                for q in [
                    "const", "unsafe", "async", "extern \"C\"", "#[inline]", "#[cfg(x)]", "#[doc = \"d\"]", "pub", "pub(crate)", "default",
                ] {
                    out.push(Request { mode: Mode::Attr, attr: attr.into(), item: format!("{head} {{ {out_ty} {q} fn {m}(self, rhs: {ty}) {ret} {{ loop {{}} }} }}") });
                }
                for (g, params, w) in [
                    ("<'b>", format!("self, rhs: {ty}"), ""), ("<U>", format!("self, rhs: {ty}"), "where U: Copy"), ("<const N: usize>", format!("self, rhs: {ty}"), ""),
                    ("", format!("self, rhs: {ty}, extra: u8"), ""), ("", "self".to_string(), ""), ("", String::new(), ""), ("", format!("self, rhs: {ty},"), ""),
                    ("", format!("self, rhs: impl Into<{ty}>"), ""), ("", "self, rhs: Self".to_string(), "where Self: Sized"), ("", format!("self, rhs: {ty}, ..."), ""),
                ] {
                    out.push(Request { mode: Mode::Attr, attr: attr.into(), item: format!("{head} {{ {out_ty} fn {m}{g}({params}) {ret} {w} {{ loop {{}} }} }}") });
                }
                // the method twice, misspelled, or of the other form
                for extra in [format!("fn {m}(self, mut rhs: {ty}) {ret} {{ loop {{}} }} fn {m}(self, rhs: {ty}) {ret} {{ loop {{}} }}"), format!("fn {m}_(self, mut rhs: {ty}) {{}}"), "fn neg(mut self) -> X { self }".to_string()] {
                    out.push(Request { mode: Mode::Attr, attr: attr.into(), item: format!("{head} {{ {out_ty} {extra} }}") });
                }
            }
        }
        for recv in receivers {
            for attr in ["Neg", "Not, Neg", ""] {
                out.push(Request { mode: Mode::Attr, attr: attr.into(), item: format!("impl Neg for X {{ type Output = X; fn neg({recv}) -> X {{ loop {{}} }} }}") });
            }
        }
    }
    // normalise to the printed token form and drop what is not a valid request
    let mut res = Vec::new();
    let mut seen = std::collections::BTreeSet::new();
    for r in out {
        let (Some(a), Some(i)) = (lex(&r.attr), lex(&r.item)) else {
            continue;
        };
        let r = Request::new(r.mode, &a, &i);
        if is_valid_request(&r) && seen.insert(r.id()) {
            res.push(r);
        }
    }
    res
}

/// Seeds in EXTRA that the validity filter rejected (reported by `dexsim selftest`).
pub fn rejected() -> Vec<String> {
    let mut bad = Vec::new();
    for (mode, attr, item) in EXTRA {
        let (Some(a), Some(i)) = (lex(attr), lex(item)) else {
            bad.push(format!("does not lex: {attr} / {item}"));
            continue;
        };
        let r = Request::new(
            if *mode == "attr" { Mode::Attr } else { Mode::Derive },
            &a,
            &i,
        );
        if !is_valid_request(&r) {
            bad.push(format!("not valid: [{mode}] {attr} / {item}"));
        }
    }
    bad
}
