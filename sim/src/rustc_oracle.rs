//! rustc's own parser as a second opinion, used only to *confirm* violations before they are
//! reported: the input must be syntactically valid for rustc (the property's premise) and, for
//! ill-formed output, rustc must reject the generated tokens too. Everything is wrapped in a
//! `#[cfg(any())] mod`, which rustc parses completely and then discards, so the verdict is the
//! parser's alone (no name resolution, no type checking).

use crate::req::{Mode, Request};
use std::path::{Path, PathBuf};
use std::process::{Command, Stdio};

pub struct RustcOracle {
    pub rustc: PathBuf,
    dir: PathBuf,
    pub calls: usize,
    n: usize,
}

impl RustcOracle {
    pub fn new(rustc: &Path, dir: &Path) -> Self {
        std::fs::create_dir_all(dir).ok();
        Self {
            rustc: rustc.to_path_buf(),
            dir: dir.to_path_buf(),
            calls: 0,
            n: 0,
        }
    }
    /// `Some(true)` if rustc parses `body` as a sequence of items, `Some(false)` if it reports
    /// an error, `None` if rustc could not be run.
    pub fn items_parse(&mut self, body: &str) -> Option<(bool, String)> {
        self.calls += 1;
        self.n += 1;
        let f = self.dir.join(format!("p{}_{}.rs", std::process::id(), self.n));
        let src = format!("#[cfg(any())]\nmod m {{\n{body}\n}}\n");
        std::fs::write(&f, src).ok()?;
        let out = Command::new(&self.rustc)
            .arg("--edition")
            .arg("2021")
            .arg("--crate-type")
            .arg("lib")
            .arg("--emit=metadata")
            .arg("--out-dir")
            .arg(&self.dir)
            .arg("-Awarnings")
            .arg("--error-format=short")
            .arg(&f)
            .env_clear()
            .stdin(Stdio::null())
            .stdout(Stdio::null())
            .stderr(Stdio::piped())
            .output()
            .ok()?;
        let _ = std::fs::remove_file(&f);
        let stem = f.file_stem()?.to_string_lossy().to_string();
        let _ = std::fs::remove_file(self.dir.join(format!("lib{stem}.rmeta")));
        let err = String::from_utf8_lossy(&out.stderr).to_string();
        if out.status.code().is_none() {
            return None;
        }
        Some((out.status.success(), err))
    }
    pub fn input_ok(&mut self, r: &Request) -> Option<bool> {
        let flat;
        let r = if r.has_none_group() {
            flat = r.flattened();
            &flat
        } else {
            r
        };
        let body = match r.mode {
            Mode::Attr => format!("#[derive_ex({})]\n{}", r.attr, r.item),
            Mode::Derive => format!("#[derive(Ex)]\n{}", r.item),
        };
        self.items_parse(&body).map(|x| x.0)
    }
    pub fn output_ok(&mut self, text: &str) -> Option<(bool, String)> {
        self.items_parse(text)
    }
}
