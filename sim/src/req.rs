//! Requests (macro inputs), canonical token serialisation and digests.

use proc_macro2::{Delimiter, Spacing, TokenStream, TokenTree};
use serde::{Deserialize, Serialize};
use std::hash::Hasher;
use std::str::FromStr;

#[derive(Clone, Copy, Debug, Eq, PartialEq, Hash, Ord, PartialOrd, Serialize, Deserialize)]
#[serde(rename_all = "lowercase")]
pub enum Mode {
    /// `#[derive_ex(attr)] item`
    Attr,
    /// `#[derive(Ex)] item`
    Derive,
}

/// One macro input exactly as a host would hand it to the expander, as text.
#[derive(Clone, Debug, Eq, PartialEq, Hash, Serialize, Deserialize)]
pub struct Request {
    pub mode: Mode,
    /// attribute arguments (attribute mode only, empty otherwise)
    pub attr: String,
    pub item: String,
}

impl Request {
    pub fn new(mode: Mode, attr: &TokenStream, item: &TokenStream) -> Self {
        Self {
            mode,
            attr: print(attr),
            item: print(item),
        }
    }
    pub fn id(&self) -> String {
        let a = lex(&self.attr).map(|t| canon(&t));
        let i = lex(&self.item).map(|t| canon(&t));
        match (a, i) {
            (Some(a), Some(i)) => digest(&format!("{:?}\u{1e}{}\u{1e}{}", self.mode, a, i)),
            _ => digest(&format!("{:?}\u{1e}!{}\u{1e}!{}", self.mode, self.attr, self.item)),
        }
    }
    /// True if the request contains a None-delimited group (a fragment a `macro_rules!`
    /// expansion would hand over), which plain Rust source text cannot express.
    pub fn has_none_group(&self) -> bool {
        self.item.contains(NG) || self.attr.contains(NG)
    }
    /// True if a None-delimited group sits inside attribute arguments (the macro's own or a
    /// helper attribute's): an `$e:expr` fragment. Whether a compiler honours such a group inside
    /// a proc macro's *output* has changed between rustc versions, so these requests are checked
    /// with the token-level oracles only (no parse of the printed output, no engine P).
    pub fn has_expr_none_group(&self) -> bool {
        fn any_none(ts: TokenStream) -> bool {
            ts.into_iter().any(|t| match t {
                TokenTree::Group(g) => g.delimiter() == Delimiter::None || any_none(g.stream()),
                _ => false,
            })
        }
        fn in_attrs(ts: TokenStream) -> bool {
            let v: Vec<TokenTree> = ts.into_iter().collect();
            for (i, t) in v.iter().enumerate() {
                if let TokenTree::Group(g) = t {
                    let is_attr = g.delimiter() == Delimiter::Bracket
                        && i > 0
                        && matches!(&v[i - 1], TokenTree::Punct(p) if p.as_char() == '#' || p.as_char() == '!');
                    if is_attr {
                        if any_none(g.stream()) {
                            return true;
                        }
                    } else if in_attrs(g.stream()) {
                        return true;
                    }
                }
            }
            false
        }
        if !self.has_none_group() {
            return false;
        }
        lex(&self.attr).map(any_none).unwrap_or(false) || lex(&self.item).map(in_attrs).unwrap_or(false)
    }
    /// The request with every None-delimited group dissolved into its contents.
    pub fn flattened(&self) -> Request {
        let f = |s: &str| lex(s).map(|t| flatten(t).to_string()).unwrap_or_else(|| s.to_string());
        Request {
            mode: self.mode,
            attr: f(&self.attr),
            item: f(&self.item),
        }
    }
    pub fn display(&self) -> String {
        match self.mode {
            Mode::Attr => format!("#[derive_ex({})] {}", self.attr, self.item),
            Mode::Derive => format!("#[derive(Ex)] {}", self.item),
        }
    }
}

/// Canonical serialisation of a token stream: every token, in order, with identifier text,
/// punctuation character and spacing, literal text and delimiters. Spans are not part of it.
/// Two streams have the same canonical form iff they are token-for-token equal.
pub fn canon(ts: &TokenStream) -> String {
    let mut s = String::new();
    canon_into(ts.clone(), &mut s);
    s
}
fn canon_into(ts: TokenStream, s: &mut String) {
    for tt in ts {
        match tt {
            TokenTree::Ident(i) => {
                s.push('i');
                s.push_str(&i.to_string());
            }
            TokenTree::Punct(p) => {
                s.push(match p.spacing() {
                    Spacing::Alone => 'p',
                    Spacing::Joint => 'j',
                });
                s.push(p.as_char());
            }
            TokenTree::Literal(l) => {
                s.push('l');
                s.push_str(&l.to_string());
            }
            TokenTree::Group(g) => {
                let (o, c) = match g.delimiter() {
                    Delimiter::Parenthesis => ('(', ')'),
                    Delimiter::Brace => ('{', '}'),
                    Delimiter::Bracket => ('[', ']'),
                    Delimiter::None => ('\u{2039}', '\u{203a}'),
                };
                s.push('g');
                s.push(o);
                s.push('\u{1f}');
                canon_into(g.stream(), s);
                s.push('g');
                s.push(c);
            }
        }
        s.push('\u{1f}');
    }
}

/// `canon` with punctuation spacing erased (the validity filter compares the re-printed parse
/// with the input this way: spacing in the input depends on how the user typed it).
pub fn canon_loose(ts: &TokenStream) -> String {
    let c = canon(ts);
    let mut out = String::with_capacity(c.len());
    let mut start = true;
    for ch in c.chars() {
        if start && ch == 'j' {
            out.push('p');
        } else {
            out.push(ch);
        }
        start = ch == '\u{1f}';
    }
    out
}

/// (number of token trees including nested ones, maximum nesting depth)
pub fn size_and_depth(ts: &TokenStream) -> (usize, usize) {
    let mut n = 0;
    let mut d = 0;
    for tt in ts.clone() {
        n += 1;
        if let TokenTree::Group(g) = tt {
            let (n1, d1) = size_and_depth(&g.stream());
            n += n1;
            d = d.max(d1 + 1);
        }
    }
    (n, d)
}

/// 128-bit digest as 32 hex digits (two SipHash-2-4 runs with fixed, different keys).
pub fn digest(s: &str) -> String {
    #[allow(deprecated)]
    fn h(k0: u64, k1: u64, s: &str) -> u64 {
        let mut h = std::hash::SipHasher::new_with_keys(k0, k1);
        h.write(s.as_bytes());
        h.finish()
    }
    format!(
        "{:016x}{:016x}",
        h(0x0123_4567_89ab_cdef, 0x0f1e_2d3c_4b5a_6978, s),
        h(0xfedc_ba98_7654_3210, 0x1122_3344_5566_7788, s)
    )
}

/// Marker for a None-delimited group in request text: `__ng(tokens)`. Such groups are what a
/// `macro_rules!` expansion passes to a proc macro for `$x:ty` / `$x:expr` fragments; source
/// text cannot express them, so requests carry them under this reserved identifier.
pub const NG: &str = "__ng";


/// Lexes request text; `__ng( .. )` becomes a None-delimited group.
pub fn lex(s: &str) -> Option<TokenStream> {
    let ts = TokenStream::from_str(s).ok()?;
    Some(if s.contains(NG) { unmark(ts) } else { ts })
}
fn unmark(ts: TokenStream) -> TokenStream {
    let v: Vec<TokenTree> = ts.into_iter().collect();
    let mut out: Vec<TokenTree> = Vec::new();
    let mut i = 0;
    while i < v.len() {
        match (&v[i], v.get(i + 1)) {
            (TokenTree::Ident(id), Some(TokenTree::Group(g))) if id == NG && g.delimiter() == Delimiter::Parenthesis => {
                out.push(TokenTree::Group(proc_macro2::Group::new(Delimiter::None, unmark(g.stream()))));
                i += 2;
            }
            (TokenTree::Group(g), _) => {
                out.push(TokenTree::Group(proc_macro2::Group::new(g.delimiter(), unmark(g.stream()))));
                i += 1;
            }
            (t, _) => {
                out.push(t.clone());
                i += 1;
            }
        }
    }
    out.into_iter().collect()
}
/// Prints a token stream as request text (None-delimited groups as `__ng( .. )`).
pub fn print(ts: &TokenStream) -> String {
    fn has_none(ts: &TokenStream) -> bool {
        ts.clone().into_iter().any(|t| match t {
            TokenTree::Group(g) => g.delimiter() == Delimiter::None || has_none(&g.stream()),
            _ => false,
        })
    }
    fn mark(ts: TokenStream) -> TokenStream {
        let mut out: Vec<TokenTree> = Vec::new();
        for t in ts {
            match t {
                TokenTree::Group(g) if g.delimiter() == Delimiter::None => {
                    out.push(TokenTree::Ident(proc_macro2::Ident::new(NG, proc_macro2::Span::call_site())));
                    out.push(TokenTree::Group(proc_macro2::Group::new(Delimiter::Parenthesis, mark(g.stream()))));
                }
                TokenTree::Group(g) => out.push(TokenTree::Group(proc_macro2::Group::new(g.delimiter(), mark(g.stream())))),
                t => out.push(t),
            }
        }
        out.into_iter().collect()
    }
    if has_none(ts) {
        mark(ts.clone()).to_string()
    } else {
        ts.to_string()
    }
}
/// Dissolves None-delimited groups.
pub fn flatten(ts: TokenStream) -> TokenStream {
    let mut out: Vec<TokenTree> = Vec::new();
    for t in ts {
        match t {
            TokenTree::Group(g) if g.delimiter() == Delimiter::None => out.extend(flatten(g.stream())),
            TokenTree::Group(g) => out.push(TokenTree::Group(proc_macro2::Group::new(g.delimiter(), flatten(g.stream())))),
            t => out.push(t),
        }
    }
    out.into_iter().collect()
}
