//! Requests (macro inputs), canonical token serialisation and digests.

use proc_macro2::{Delimiter, Spacing, TokenStream, TokenTree};
use serde::{Deserialize, Serialize};
use std::hash::Hasher;
use std::str::FromStr;

#[derive(Clone, Copy, Debug, Eq, PartialEq, Hash, Ord, PartialOrd, Serialize, Deserialize)]
#[serde(rename_all = "lowercase")]
pub enum Mode {
    /// `#[derive_ex(attr)] item`
    Attr,
    /// `#[derive(Ex)] item`
    Derive,
}

/// One macro input exactly as a host would hand it to the expander, as text.
#[derive(Clone, Debug, Eq, PartialEq, Hash, Serialize, Deserialize)]
pub struct Request {
    pub mode: Mode,
    /// attribute arguments (attribute mode only, empty otherwise)
    pub attr: String,
    pub item: String,
}

impl Request {
    pub fn new(mode: Mode, attr: &TokenStream, item: &TokenStream) -> Self {
        Self {
            mode,
            attr: attr.to_string(),
            item: item.to_string(),
        }
    }
    pub fn id(&self) -> String {
        let a = TokenStream::from_str(&self.attr).map(|t| canon(&t));
        let i = TokenStream::from_str(&self.item).map(|t| canon(&t));
        match (a, i) {
            (Ok(a), Ok(i)) => digest(&format!("{:?}\u{1e}{}\u{1e}{}", self.mode, a, i)),
            _ => digest(&format!("{:?}\u{1e}!{}\u{1e}!{}", self.mode, self.attr, self.item)),
        }
    }
    pub fn display(&self) -> String {
        match self.mode {
            Mode::Attr => format!("#[derive_ex({})] {}", self.attr, self.item),
            Mode::Derive => format!("#[derive(Ex)] {}", self.item),
        }
    }
}

/// Canonical serialisation of a token stream: every token, in order, with identifier text,
/// punctuation character and spacing, literal text and delimiters. Spans are not part of it.
/// Two streams have the same canonical form iff they are token-for-token equal.
pub fn canon(ts: &TokenStream) -> String {
    let mut s = String::new();
    canon_into(ts.clone(), &mut s);
    s
}
fn canon_into(ts: TokenStream, s: &mut String) {
    for tt in ts {
        match tt {
            TokenTree::Ident(i) => {
                s.push('i');
                s.push_str(&i.to_string());
            }
            TokenTree::Punct(p) => {
                s.push(match p.spacing() {
                    Spacing::Alone => 'p',
                    Spacing::Joint => 'j',
                });
                s.push(p.as_char());
            }
            TokenTree::Literal(l) => {
                s.push('l');
                s.push_str(&l.to_string());
            }
            TokenTree::Group(g) => {
                let (o, c) = match g.delimiter() {
                    Delimiter::Parenthesis => ('(', ')'),
                    Delimiter::Brace => ('{', '}'),
                    Delimiter::Bracket => ('[', ']'),
                    Delimiter::None => ('\u{2039}', '\u{203a}'),
                };
                s.push('g');
                s.push(o);
                s.push('\u{1f}');
                canon_into(g.stream(), s);
                s.push('g');
                s.push(c);
            }
        }
        s.push('\u{1f}');
    }
}

/// `canon` with punctuation spacing erased (the validity filter compares the re-printed parse
/// with the input this way: spacing in the input depends on how the user typed it).
pub fn canon_loose(ts: &TokenStream) -> String {
    let c = canon(ts);
    let mut out = String::with_capacity(c.len());
    let mut start = true;
    for ch in c.chars() {
        if start && ch == 'j' {
            out.push('p');
        } else {
            out.push(ch);
        }
        start = ch == '\u{1f}';
    }
    out
}

/// (number of token trees including nested ones, maximum nesting depth)
pub fn size_and_depth(ts: &TokenStream) -> (usize, usize) {
    let mut n = 0;
    let mut d = 0;
    for tt in ts.clone() {
        n += 1;
        if let TokenTree::Group(g) = tt {
            let (n1, d1) = size_and_depth(&g.stream());
            n += n1;
            d = d.max(d1 + 1);
        }
    }
    (n, d)
}

/// 128-bit digest as 32 hex digits (two SipHash-2-4 runs with fixed, different keys).
pub fn digest(s: &str) -> String {
    #[allow(deprecated)]
    fn h(k0: u64, k1: u64, s: &str) -> u64 {
        let mut h = std::hash::SipHasher::new_with_keys(k0, k1);
        h.write(s.as_bytes());
        h.finish()
    }
    format!(
        "{:016x}{:016x}",
        h(0x0123_4567_89ab_cdef, 0x0f1e_2d3c_4b5a_6978, s),
        h(0xfedc_ba98_7654_3210, 0x1122_3344_5566_7788, s)
    )
}

pub fn lex(s: &str) -> Option<TokenStream> {
    TokenStream::from_str(s).ok()
}
