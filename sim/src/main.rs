//! dexsim — deterministic session simulator for the derive-ex expander (property C16).
//!
//! Subcommands:
//!   drive      run a whole exploration (corpus, sessions as child processes, merge, minimise)
//!   session    one session = one process lifetime (child of `drive`)
//!   exec-plan  execute an explicit plan file (child of the minimiser)
//!   replay     execute a replay file and report whether the violation reproduces
//!   minimise   minimise a replay file (child of `drive`)
//!   selftest   dictionary / directed-seed sanity
//!   gen        print generated inputs
//!   corpus     print corpus statistics
//!   script     the short scripted session used under Miri (engine M)

mod corpus;
mod directed;
mod drive;
mod exec;
mod gen;
mod minimise;
mod plan;
mod req;
mod rng;
mod rustc_oracle;
mod script;
mod session;

use std::collections::BTreeMap;
use std::path::PathBuf;

pub const DEFAULT_SEED: u64 = 20_260_116;

fn args_map(args: &[String]) -> BTreeMap<String, String> {
    let mut m = BTreeMap::new();
    let mut i = 0;
    while i < args.len() {
        if let Some(k) = args[i].strip_prefix("--") {
            if i + 1 < args.len() && !args[i + 1].starts_with("--") {
                m.insert(k.to_string(), args[i + 1].clone());
                i += 2;
            } else {
                m.insert(k.to_string(), "true".to_string());
                i += 1;
            }
        } else {
            i += 1;
        }
    }
    m
}
fn get<T: std::str::FromStr>(m: &BTreeMap<String, String>, k: &str, default: T) -> T {
    m.get(k).and_then(|v| v.parse().ok()).unwrap_or(default)
}
fn harness_error(msg: &str) -> ! {
    eprintln!("dexsim: harness error: {msg}");
    std::process::exit(2);
}

fn main() {
    let args: Vec<String> = std::env::args_os().map(|a| a.to_string_lossy().into_owned()).collect();
    if args.len() < 2 {
        harness_error("no subcommand");
    }
    let m = args_map(&args[2..]);
    exec::install_panic_hook();
    match args[1].as_str() {
        "drive" => cmd_drive(&m),
        "session" => cmd_session(&m),
        "exec-plan" => cmd_exec_plan(&m),
        "replay" => cmd_replay(&m),
        "minimise" => cmd_minimise(&m),
        "selftest" => cmd_selftest(&m),
        "gen" => cmd_gen(&m),
        "corpus" => cmd_corpus(&m),
        "script" => script::cmd_script(&m),
        "debug-valid" => debug_valid(&args[2]),
        "one" => cmd_one(&m),
        "emit-one" => cmd_emit_one(&m),
        "emit-crate" => cmd_emit_crate(&m),
        "cross-check" => cmd_cross_check(&m),
        other => harness_error(&format!("unknown subcommand {other}")),
    }
}

fn cmd_drive(m: &BTreeMap<String, String>) {
    let out: PathBuf = get(m, "out", PathBuf::from("/verif/out/run"));
    let o = drive::DriveOpts {
        repo: get(m, "repo", PathBuf::from("/repo")),
        replays: get(m, "replays", PathBuf::from("/verif/replays")),
        seed: get(m, "seed", DEFAULT_SEED),
        sessions: get(m, "sessions", 64),
        first_session: get(m, "first-session", 0),
        mutants: get(m, "mutants", 20_000),
        min_steps: get(m, "min-steps", 50),
        max_steps: get(m, "max-steps", 2000),
        jobs: get(m, "jobs", 16),
        step_log: m.contains_key("step-log"),
        max_classes: get(m, "max-classes", 24),
        session_timeout_s: get(m, "session-timeout", 900),
        rustc: m.get("rustc").map(PathBuf::from),
        watchdog_s: get(m, "watchdog", 10),
        sweep: get(m, "sweep", 16),
        marathon: get(m, "marathon", 0),
        flood: get(m, "flood", 0),
        warp: get(m, "warp", 0),
        pure: get(m, "pure", 0),
        pressure: get(m, "pressure", 0),
        pure_factor: get(m, "pure-factor", 5),
        warp_lib: m.get("warp-lib").map(PathBuf::from),
        dump_sessions: get(m, "dump-sessions", 0),
        out: out.clone(),
    };
    match drive::drive(&o) {
        Ok(sum) => {
            let path = out.join("native.json");
            if let Err(e) = std::fs::write(&path, serde_json::to_string_pretty(&sum).unwrap()) {
                harness_error(&format!("write {}: {e}", path.display()));
            }
            println!(
                "dexsim: {} sessions, {} requests, {} distinct inputs, {} violation classes, {:.1}s",
                sum.sessions_completed,
                sum.requests,
                sum.distinct_inputs,
                sum.classes.len(),
                sum.wall_s
            );
            for c in &sum.classes {
                println!("dexsim: class `{}` x{} replay={}", c.class, c.occurrences, c.replay);
            }
            for e in &sum.harness_errors {
                eprintln!("dexsim: harness error: {e}");
            }
            if !sum.harness_errors.is_empty() {
                std::process::exit(2);
            }
        }
        Err(e) => harness_error(&e),
    }
}

fn load_corpus(m: &BTreeMap<String, String>) -> corpus::Corpus {
    if let Some(p) = m.get("corpus") {
        let text = std::fs::read_to_string(p).unwrap_or_else(|e| harness_error(&format!("{p}: {e}")));
        serde_json::from_str(&text).unwrap_or_else(|e| harness_error(&format!("{p}: {e}")))
    } else {
        let repo: PathBuf = get(m, "repo", PathBuf::from("/repo"));
        corpus::extract(&repo).unwrap_or_else(|e| harness_error(&e))
    }
}

/// The directed seeds: from the file the driver wrote once (`--directed`), else computed
/// (building and validating ~45 000 seeds takes about two seconds - too much per session).
fn load_directed(m: &BTreeMap<String, String>) -> Vec<req::Request> {
    if let Some(p) = m.get("directed") {
        let text = std::fs::read_to_string(p).unwrap_or_else(|e| harness_error(&format!("{p}: {e}")));
        serde_json::from_str(&text).unwrap_or_else(|e| harness_error(&format!("{p}: {e}")))
    } else {
        directed::directed()
    }
}

fn cmd_session(m: &BTreeMap<String, String>) {
    let corpus = load_corpus(m);
    let dir = load_directed(m);
    let pool = gen::Pool {
        corpus: &corpus,
        directed: &dir,
    };
    let params = session::SessionParams {
        root: get(m, "root", DEFAULT_SEED),
        idx: get(m, "idx", 0),
        mutants: get(m, "mutants", 20_000),
        min_steps: get(m, "min-steps", 50),
        max_steps: get(m, "max-steps", 2000),
        sweep_n: get(m, "sweep-n", 16),
        pure_factor: get(m, "pure-factor", 5),
    };
    let (plan, meta) = session::plan_session(&params, &pool);
    if m.contains_key("plan-only") {
        println!("{}", serde_json::to_string_pretty(&plan).unwrap());
        return;
    }
    let out: PathBuf = get(m, "out", PathBuf::from("session.json"));
    let opts = exec::ExecOptions {
        step_log: m.contains_key("step-log"),
        timeout: std::time::Duration::from_secs(get(m, "timeout", 30)),
        max_violations: 200,
        exit_on_hang: true,
        progress: m.get("progress").map(PathBuf::from),
        keep_text: m.contains_key("dump"),
    };
    let n_reqs = plan.reqs.len();
    let n_steps = plan.steps.len();
    let dump: Option<PathBuf> = m.get("dump").map(PathBuf::from);
    let reqs_for_dump = if dump.is_some() { plan.reqs.clone() } else { vec![] };
    exec::exec_with(&plan, opts, move |mut log| {
        if let Some(d) = &dump {
            // one JSON line per distinct input that expanded: request and printed output
            let mut s = String::new();
            for (ri, text) in std::mem::take(&mut log.texts) {
                let r = &reqs_for_dump[ri];
                s.push_str(&dump_line(r, &text));
                s.push('\n');
            }
            let _ = std::fs::write(d, s);
        }
        let res = session::SessionResult {
            params,
            meta,
            n_reqs,
            n_steps,
            log,
        };
        if let Err(e) = std::fs::write(&out, serde_json::to_string(&res).unwrap()) {
            harness_error(&format!("write {}: {e}", out.display()));
        }
    });
}

fn cmd_exec_plan(m: &BTreeMap<String, String>) {
    let p: String = get(m, "plan", String::new());
    let text = std::fs::read_to_string(&p).unwrap_or_else(|e| harness_error(&format!("{p}: {e}")));
    let plan: plan::Plan = serde_json::from_str(&text).unwrap_or_else(|e| harness_error(&format!("{p}: {e}")));
    let out: PathBuf = get(m, "out", PathBuf::from("log.json"));
    let opts = exec::ExecOptions {
        step_log: true,
        timeout: std::time::Duration::from_secs(get(m, "timeout", 30)),
        max_violations: 50,
        exit_on_hang: true,
        progress: None,
        keep_text: m.contains_key("dump"),
    };
    let dump: Option<PathBuf> = m.get("dump").map(PathBuf::from);
    let reqs_for_dump = plan.reqs.clone();
    exec::exec_with(&plan, opts, move |mut log| {
        if let Some(d) = &dump {
            let mut s = String::new();
            for (ri, text) in std::mem::take(&mut log.texts) {
                let r = &reqs_for_dump[ri];
                s.push_str(&dump_line(r, &text));
                s.push('\n');
            }
            let _ = std::fs::write(d, s);
        }
        let _ = std::fs::write(&out, serde_json::to_string(&log).unwrap());
    });
}

/// One line of a session dump for engine P: the request, the printed output, and the built-in
/// attributes of the output that are not token-identical to an attribute of the input (what the
/// expander itself wrote or rewrote; rustc validates those beyond what its item parser checks).
fn dump_line(r: &req::Request, text: &str) -> String {
    let new_attrs = new_builtin_attrs(r, text);
    // expression fragments: no parse of the printed output by engine P (whether a compiler honours
    // such a group in a macro's output has changed between versions), attribute probe only
    let attrs_only = r.has_expr_none_group();
    // engine P parses source text: None-delimited groups are dissolved (for whole types the flat
    // text is valid where the grouped tokens are)
    let orig = r.clone();
    let r = if r.has_none_group() { r.flattened() } else { r.clone() };
    serde_json::json!({"id": r.id(), "mode": r.mode, "attr": r.attr, "item": r.item, "out": text, "new_attrs": new_attrs,
        "attrs_only": attrs_only, "orig_attr": orig.attr, "orig_item": orig.item}).to_string()
}

const BUILTIN_ATTRS: &[&str] = &[
    "cfg", "cfg_attr", "doc", "repr", "allow", "warn", "deny", "forbid", "expect", "inline", "must_use", "deprecated",
    "non_exhaustive", "automatically_derived", "track_caller", "cold", "no_mangle", "link_section", "export_name", "path",
    "macro_use", "macro_export", "ignore", "should_panic", "target_feature", "link", "link_name", "no_std", "recursion_limit",
    "type_length_limit", "windows_subsystem", "used", "global_allocator", "panic_handler", "debugger_visualizer",
];

fn new_builtin_attrs(r: &req::Request, out_text: &str) -> Vec<String> {
    use quote::ToTokens;
    use syn::visit::Visit;
    struct V {
        builtin_only: bool,
        found: std::collections::BTreeSet<String>,
    }
    impl<'a> Visit<'a> for V {
        fn visit_attribute(&mut self, a: &'a syn::Attribute) {
            let name = a.path().segments.last().map(|s| s.ident.to_string()).unwrap_or_default();
            if !self.builtin_only || (a.path().segments.len() == 1 && BUILTIN_ATTRS.contains(&name.as_str())) {
                let t: String = req::flatten(a.to_token_stream()).to_string().split_whitespace().collect();
                self.found.insert(t);
            }
        }
    }
    let Ok(out) = syn::parse_str::<syn::File>(out_text) else {
        return vec![];
    };
    let mut o = V { builtin_only: true, found: Default::default() };
    o.visit_file(&out);
    if o.found.is_empty() {
        return vec![];
    }
    let mut i = V { builtin_only: false, found: Default::default() };
    if let Some(ts) = req::lex(&r.item) {
        if let Ok(f) = syn::parse2::<syn::File>(req::flatten(ts)) {
            i.visit_file(&f);
        }
    }
    // printed with ordinary spacing again for the probe
    let mut res = Vec::new();
    if let Ok(out) = syn::parse_str::<syn::File>(out_text) {
        struct P<'b> {
            known: &'b std::collections::BTreeSet<String>,
            res: &'b mut Vec<String>,
            seen: std::collections::BTreeSet<String>,
        }
        impl<'a, 'b> Visit<'a> for P<'b> {
            fn visit_attribute(&mut self, a: &'a syn::Attribute) {
                let name = a.path().segments.last().map(|s| s.ident.to_string()).unwrap_or_default();
                if a.path().segments.len() == 1 && BUILTIN_ATTRS.contains(&name.as_str()) && matches!(a.style, syn::AttrStyle::Outer) {
                    let flat = req::flatten(a.to_token_stream()).to_string();
                    let key: String = flat.split_whitespace().collect();
                    if !self.known.contains(&key) && self.seen.insert(key) && flat.len() < 2000 {
                        self.res.push(flat);
                    }
                }
            }
        }
        let mut p = P { known: &i.found, res: &mut res, seen: Default::default() };
        p.visit_file(&out);
    }
    res
}

fn cmd_replay(m: &BTreeMap<String, String>) {
    let p: String = get(m, "file", String::new());
    let quiet = m.contains_key("quiet");
    let text = std::fs::read_to_string(&p).unwrap_or_else(|e| harness_error(&format!("{p}: {e}")));
    let rf: drive::ReplayFile =
        serde_json::from_str(&text).unwrap_or_else(|e| harness_error(&format!("{p}: {e}")));
    let tmp = std::env::temp_dir().join(format!("dexsim-replay-{}", std::process::id()));
    let mut ctx = minimise::Ctx::new(&tmp, 10);
    let timeout = if rf.kind == "hang" { 40 } else { 30 };
    let reproduced: bool;
    let mut lines: Vec<String> = Vec::new();
    if rf.class == "diverge-across-processes" {
        let plan_b = rf.plan_b.clone().unwrap_or_else(|| rf.plan.clone());
        let a = ctx.run_child(&rf.plan, timeout);
        let b = ctx.run_child(&plan_b, timeout);
        match (a, b) {
            (Some(a), Some(b)) => {
                // the last step of both plans is the same request: compare what it produced
                let la = a.step_log.last().and_then(|l| l.rsplit(' ').next().map(String::from));
                let lb = b.step_log.last().and_then(|l| l.rsplit(' ').next().map(String::from));
                reproduced = la != lb;
                lines.push(format!("process 1 ({} steps): last step gave {:?}", a.step_log.len(), la));
                lines.push(format!("process 2 ({} steps): last step gave {:?}", b.step_log.len(), lb));
            }
            _ => harness_error("child process produced no log"),
        }
    } else if rf.kind == "crash" {
        reproduced = ctx.run_child(&rf.plan, timeout).is_none();
    } else {
        match ctx.run_child(&rf.plan, timeout) {
            Some(log) => {
                reproduced = log.violations.iter().any(|v| v.class == rf.class);
                for (i, l) in log.step_log.iter().enumerate() {
                    lines.push(format!("step {i}: {l}"));
                }
                for v in &log.violations {
                    lines.push(format!("violation at step {}: {} — {}", v.step, v.class, v.detail));
                }
            }
            None => harness_error("child process produced no log"),
        }
    }
    let _ = std::fs::remove_dir_all(&tmp);
    if !quiet {
        println!("replay of {p}");
        println!("class: {}", rf.class);
        println!("input: {}", rf.input);
        for l in &lines {
            println!("{l}");
        }
    }
    if reproduced {
        println!("VIOLATION property=C16 replay={p}");
        std::process::exit(1);
    } else {
        println!("replay: violation not reproduced");
    }
}

fn cmd_minimise(m: &BTreeMap<String, String>) {
    let p: String = get(m, "replay", String::new());
    let out: PathBuf = get(m, "out", PathBuf::from("min.json"));
    let tmp: PathBuf = get(m, "tmp", std::env::temp_dir());
    let text = std::fs::read_to_string(&p).unwrap_or_else(|e| harness_error(&format!("{p}: {e}")));
    let mut rf: drive::ReplayFile =
        serde_json::from_str(&text).unwrap_or_else(|e| harness_error(&format!("{p}: {e}")));
    let tmp = tmp.join(format!("min-{}", std::process::id()));
    let mut ctx = minimise::Ctx::new(&tmp, get(m, "max-trials", 1500));
    if let Some(r) = m.get("rustc") {
        ctx.rustc = Some(rustc_oracle::RustcOracle::new(std::path::Path::new(r), &tmp));
    }
    if rf.class == "diverge-across-processes" {
        if let Some(b) = rf.plan_b.clone() {
            ctx.max_trials = 250;
            let (a2, b2) = minimise::minimise_pair(&mut ctx, &rf.plan, &b);
            rf.plan = a2;
            rf.plan_b = Some(b2);
            rf.minimisation_trials = ctx.trials;
            if let Some(s) = rf.plan.steps.last() {
                rf.input = rf.plan.reqs[s.req].display();
            }
        }
        let _ = std::fs::remove_dir_all(&tmp);
        let _ = std::fs::write(&out, serde_json::to_string_pretty(&rf).unwrap());
        return;
    }
    let step = rf.plan.steps.len() - 1;
    let res = minimise::minimise(&mut ctx, &rf.plan, &rf.class, step, None);
    rf.plan = res.plan;
    rf.minimisation_trials = res.trials;
    if let Some(o) = &ctx.rustc {
        rf.notes.push(format!("rustc parser consulted {} times during minimisation", o.calls));
    }
    if let Some(s) = rf.plan.steps.last() {
        rf.input = rf.plan.reqs[s.req].display();
    }
    // refresh detail / outputs from the minimised plan
    if let Some(log) = ctx.run_child(&rf.plan, 40) {
        if let Some(v) = log.violations.iter().find(|v| v.class == rf.class) {
            rf.detail = v.detail.clone();
            rf.output_a = v.text_a.clone();
            rf.output_b = v.text_b.clone();
        }
    }
    let _ = std::fs::remove_dir_all(&tmp);
    let _ = std::fs::write(&out, serde_json::to_string_pretty(&rf).unwrap());
}

fn cmd_selftest(_m: &BTreeMap<String, String>) {
    let mut bad = gen::selftest_dictionaries();
    bad.extend(directed::rejected());
    for b in &bad {
        println!("selftest: {b}");
    }
    println!("selftest: {} directed seeds, {} problems", directed::directed().len(), bad.len());
    if !bad.is_empty() {
        std::process::exit(2);
    }
}

fn cmd_gen(m: &BTreeMap<String, String>) {
    let corpus = load_corpus(m);
    let dir = directed::directed();
    let pool = gen::Pool {
        corpus: &corpus,
        directed: &dir,
    };
    let root = get(m, "root", DEFAULT_SEED);
    let from: u64 = get(m, "from", 0);
    let n: u64 = get(m, "n", 10);
    let expand = m.contains_key("expand");
    for i in from..from + n {
        let (r, ops) = gen::gen_input(root, i, &pool);
        println!("#{i} {:?}\n  {}", ops, r.display());
        if expand {
            let obs = exec::expand_and_observe(&r);
            println!("  => {:?} impls={} errors={:?} {}", obs.outcome, obs.n_impls, obs.errors, obs.detail);
        }
    }
}

fn cmd_corpus(m: &BTreeMap<String, String>) {
    let corpus = load_corpus(m);
    println!(
        "corpus: {} items from {} files and {} doc blocks ({} unparsed); {} error sites",
        corpus.entries.len(),
        corpus.files_read,
        corpus.doc_blocks,
        corpus.doc_blocks_unparsed,
        corpus.error_sites.len()
    );
    if m.contains_key("list") {
        for e in &corpus.entries {
            println!("{}: {}", e.origin, e.req.display());
        }
    }
    if m.contains_key("sites") {
        for s in &corpus.error_sites {
            println!("{} {:?}", s.label(), s.pieces);
        }
    }
}

#[allow(dead_code)]
/// Probe: expands one request (`--attr <tokens> --item <tokens>`, or `--derive --item ..`) and
/// prints the outcome and the output text.
fn cmd_one(m: &BTreeMap<String, String>) {
    let mode = if m.contains_key("derive") { req::Mode::Derive } else { req::Mode::Attr };
    let attr = m.get("attr").cloned().unwrap_or_default();
    let item = m.get("item").cloned().unwrap_or_default();
    let (Some(a), Some(i)) = (req::lex(&attr), req::lex(&item)) else {
        harness_error("--attr / --item do not lex");
    };
    let r = req::Request::new(mode, &a, &i);
    println!("valid request: {}", gen::is_valid_request(&r));
    let obs = exec::expand_and_observe(&r);
    println!("outcome: {:?}  items={} impls={}", obs.outcome, obs.n_items, obs.n_impls);
    if !obs.detail.is_empty() {
        println!("detail: {}", obs.detail);
    }
    for e in &obs.errors {
        println!("error message: {e}");
    }
    println!("output: {}", obs.text);
}

pub fn debug_valid(s: &str) {
    use quote::ToTokens;
    let ts = req::lex(s).unwrap();
    match syn::parse2::<syn::Item>(ts.clone()) {
        Ok(i) => {
            let a = req::canon(&i.to_token_stream());
            let b = req::canon(&ts);
            println!("parse ok; same={} verbatim={}", a == b, matches!(i, syn::Item::Verbatim(_)));
            if a != b {
                println!("A: {}\nB: {}", i.to_token_stream(), ts);
                println!("{}\n{}", a.replace('\u{1f}', " "), b.replace('\u{1f}', " "));
            }
        }
        Err(e) => println!("parse err {e}"),
    }
}

/// Writes one Rust source file containing `n` inputs (corpus, directed, generated), each in a
/// module of its own, for the real-host engine R. With --ok-only only inputs whose native
/// expansion produced impls and no error are kept. A side file lists, per module, the request
/// and the native output digest.
fn cmd_emit_crate(m: &BTreeMap<String, String>) {
    let corpus = load_corpus(m);
    let dir = load_directed(m);
    let pool = gen::Pool {
        corpus: &corpus,
        directed: &dir,
    };
    let root = get(m, "root", DEFAULT_SEED);
    let from: u64 = get(m, "from", 0);
    let n: u64 = get(m, "n", 1000);
    let ok_only = m.contains_key("ok-only");
    let with_pool = m.contains_key("with-pool");
    let no_user_ce = m.contains_key("no-user-compile-error");
    let no_native = m.contains_key("no-native");
    let shard: String = get(m, "shard", "0/1".to_string());
    let (shard_k, shard_n) = shard
        .split_once('/')
        .and_then(|(a, b)| Some((a.parse::<usize>().ok()?, b.parse::<usize>().ok()?)))
        .unwrap_or((0, 1));
    let mut ordinal = 0usize;
    let max_tokens: usize = get(m, "max-tokens", 0usize);
    let mut skipped_big = 0usize;
    let out: PathBuf = get(m, "out", PathBuf::from("crate.rs"));
    let mut reqs: Vec<req::Request> = Vec::new();
    if with_pool {
        // corpus always; of the directed seeds every `stride`-th one starting at `offset`
        let stride: usize = get(m, "pool-stride", 1usize).max(1);
        let offset: usize = get(m, "pool-offset", 0usize) % stride;
        reqs.extend(corpus.entries.iter().map(|e| e.req.clone()));
        reqs.extend(dir.iter().enumerate().filter(|(i, _)| i % stride == offset).map(|(_, r)| r.clone()));
    }
    for i in from..from + n {
        reqs.push(gen::gen_input(root, i, &pool).0);
    }
    let mut seen = std::collections::BTreeSet::new();
    let mut src = String::from("#![allow(warnings)]\n");
    let mut index = Vec::new();
    let mut k = 0usize;
    for r in reqs {
        if !seen.insert(r.id()) {
            continue;
        }
        if no_user_ce && r.item.contains("compile_error") {
            continue;
        }
        // very large inputs are left to engine N: what rustc does with the hundreds of generated
        // impls afterwards (name resolution, diagnostics) costs minutes and is not under test
        if max_tokens > 0 {
            let (na, da) = req::lex(&r.attr).map(|t| req::size_and_depth(&t)).unwrap_or((0, 0));
            let (ni, di) = req::lex(&r.item).map(|t| req::size_and_depth(&t)).unwrap_or((0, 0));
            // deeply nested types: rustc's own analysis of e.g. `Box<dyn Fn(Box<dyn Fn(..` 40 deep
            // does not finish in minutes, whatever the macro generated
            // generic nesting (`X<X<X<..>>>`) does not show as token-tree depth
            let angle = |t: &str| -> usize {
                let (mut d, mut m) = (0usize, 0usize);
                let b = t.as_bytes();
                for (i, c) in b.iter().enumerate() {
                    match c {
                        b'<' => {
                            d += 1;
                            m = m.max(d);
                        }
                        b'>' if i > 0 && (b[i - 1] == b'-' || b[i - 1] == b'=') => {}
                        b'>' => d = d.saturating_sub(1),
                        _ => {}
                    }
                }
                m
            };
            if na + ni > max_tokens || da.max(di) > 14 || angle(&r.item).max(angle(&r.attr)) > 8 {
                skipped_big += 1;
                continue;
            }
        }
        // source text cannot express a None-delimited group: such a request is handed to the
        // compiler the way it arises in practice, through a `macro_rules!` wrapper whose
        // `$t:ty` / `$e:expr` fragments become the groups
        let wrapped = if r.has_none_group() {
            match macro_rules_wrapper(&r) {
                Some(w) => Some(w),
                None => continue,
            }
        } else {
            None
        };
        ordinal += 1;
        if (ordinal - 1) % shard_n.max(1) != shard_k {
            continue;
        }
        let obs = if no_native {
            exec::Obs {
                outcome: exec::Outcome::Ok,
                digest: String::new(),
                detail: String::new(),
                n_items: 0,
                n_impls: 0,
                errors: vec![],
                text: String::new(),
            }
        } else {
            exec::expand_and_observe(&r)
        };
        if ok_only && !(obs.outcome == exec::Outcome::Ok && obs.errors.is_empty() && obs.n_impls > 0) {
            continue;
        }
        // user macros / inner modules cannot be resolved in the generated crate
        if ok_only && (r.item.contains('!') || r.attr.contains('!') || !only_plain_attrs(&r)) {
            continue;
        }
        let body = match (&wrapped, r.mode) {
            (Some(w), _) => w.clone(),
            (None, req::Mode::Attr) => format!("#[derive_ex({})]\n{}", r.attr, r.item),
            (None, req::Mode::Derive) => format!("#[derive(Ex)]\n{}", r.item),
        };
        src.push_str(&format!("mod m{k} {{\nuse ::derive_ex::{{derive_ex, Ex}};\n{body}\n}}\n"));
        index.push(serde_json::json!({"module": format!("m{k}"), "req": r, "digest": obs.digest,
            "outcome": format!("{:?}", obs.outcome), "errors": obs.errors.len(), "text": obs.text}));
        k += 1;
    }
    std::fs::write(&out, src).unwrap_or_else(|e| harness_error(&format!("{}: {e}", out.display())));
    let idx = out.with_extension("index.json");
    std::fs::write(&idx, serde_json::to_string(&index).unwrap()).unwrap_or_else(|e| harness_error(&format!("{e}")));
    println!("emit-crate: {k} modules -> {} ({skipped_big} skipped as too large)", out.display());
}

/// Prints the source text that hands the last request of a replay file to a real compiler
/// (the plain attribute / derive form, or the `macro_rules!` wrapper if the request contains
/// None-delimited groups). Exit 3 if the request cannot be expressed in source text.
fn cmd_emit_one(m: &BTreeMap<String, String>) {
    let p: String = get(m, "replay", String::new());
    let text = std::fs::read_to_string(&p).unwrap_or_else(|e| harness_error(&format!("{p}: {e}")));
    let v: serde_json::Value = serde_json::from_str(&text).unwrap_or_else(|e| harness_error(&format!("{p}: {e}")));
    let plan = &v["plan"];
    let idx = plan["steps"].as_array().and_then(|s| s.last()).and_then(|s| s["req"].as_u64()).unwrap_or(0) as usize;
    let r: req::Request = serde_json::from_value(plan["reqs"][idx].clone()).unwrap_or_else(|e| harness_error(&format!("{p}: {e}")));
    let body = if r.has_none_group() {
        match macro_rules_wrapper(&r) {
            Some(w) => w,
            None => std::process::exit(3),
        }
    } else {
        match r.mode {
            req::Mode::Attr => format!("#[derive_ex({})]\n{}", r.attr, r.item),
            req::Mode::Derive => format!("#[derive(Ex)]\n{}", r.item),
        }
    };
    println!("{body}");
}

/// `macro_rules! w { ($d:tt, $f0:ty, $f1:expr) => { #[derive_ex(..)] item } } w!{ $, frag0, frag1 }`
/// for a request that contains None-delimited groups: every outermost group becomes a fragment
/// parameter (`expr` inside attributes if it parses as one, `ty` otherwise), every literal `$`
/// of the request becomes `$d`. None if a fragment is neither a type nor an expression or
/// contains a `$` (no real `macro_rules!` expansion can produce that).
fn macro_rules_wrapper(r: &req::Request) -> Option<String> {
    use proc_macro2::{Delimiter, Group, Ident, Punct, Spacing, Span, TokenStream, TokenTree};
    struct W {
        frags: Vec<(&'static str, String)>,
        bad: bool,
    }
    fn walk(ts: TokenStream, in_attr: bool, w: &mut W) -> TokenStream {
        let v: Vec<TokenTree> = ts.into_iter().collect();
        let mut out: Vec<TokenTree> = Vec::new();
        for (i, t) in v.iter().enumerate() {
            match t {
                TokenTree::Punct(p) if p.as_char() == '$' => {
                    out.push(TokenTree::Punct(Punct::new('$', Spacing::Alone)));
                    out.push(TokenTree::Ident(Ident::new("d", Span::call_site())));
                }
                TokenTree::Group(g) if g.delimiter() == Delimiter::None => {
                    let inner = req::flatten(g.stream());
                    let text = inner.to_string();
                    if text.contains('$') || text.trim() == "_" {
                        w.bad = true;
                    }
                    let is_expr = syn::parse2::<syn::Expr>(inner.clone()).is_ok();
                    let is_ty = syn::parse2::<syn::Type>(inner.clone()).is_ok();
                    let is_lit = syn::parse2::<syn::Lit>(inner.clone()).is_ok();
                    let is_meta = syn::parse2::<syn::Meta>(inner.clone()).is_ok();
                    let is_vis = text.trim().is_empty()
                        || (text.trim_start().starts_with("pub") && syn::parse2::<syn::Visibility>(inner.clone()).is_ok());
                    // what follows decides between a type and an expression outside attributes:
                    // `= <expr>` (discriminant, const default) and `; <expr> ]` (array length)
                    let after_eq_or_semi = i > 0
                        && matches!(&v[i - 1], TokenTree::Punct(p) if p.as_char() == '=' || p.as_char() == ';');
                    let kind = if is_vis && !in_attr {
                        "vis"
                    } else if in_attr && is_lit {
                        "literal"
                    } else if in_attr && is_expr {
                        "expr"
                    } else if in_attr && is_meta {
                        "meta"
                    } else if !in_attr && after_eq_or_semi && is_expr {
                        "expr"
                    } else if is_ty {
                        "ty"
                    } else if is_expr {
                        "expr"
                    } else {
                        w.bad = true;
                        "tt"
                    };
                    let name = format!("f{}", w.frags.len());
                    w.frags.push((kind, text));
                    out.push(TokenTree::Punct(Punct::new('$', Spacing::Alone)));
                    out.push(TokenTree::Ident(Ident::new(&name, Span::call_site())));
                }
                TokenTree::Group(g) => {
                    let is_attr = g.delimiter() == Delimiter::Bracket
                        && i > 0
                        && matches!(&v[i - 1], TokenTree::Punct(p) if p.as_char() == '#' || p.as_char() == '!');
                    out.push(TokenTree::Group(Group::new(g.delimiter(), walk(g.stream(), in_attr || is_attr, w))));
                }
                t => out.push(t.clone()),
            }
        }
        out.into_iter().collect()
    }
    let mut w = W { frags: Vec::new(), bad: false };
    let attr = walk(req::lex(&r.attr)?, true, &mut w).to_string();
    let item = walk(req::lex(&r.item)?, false, &mut w).to_string();
    if w.bad || w.frags.is_empty() || w.frags.len() > 12 {
        return None;
    }
    let params: Vec<String> = w.frags.iter().enumerate().map(|(i, (k, _))| format!("$f{i}:{k}")).collect();
    let args: Vec<String> = w.frags.iter().map(|(_, t)| t.clone()).collect();
    let head = match r.mode {
        req::Mode::Attr => format!("#[derive_ex({attr})]"),
        req::Mode::Derive => "#[derive(Ex)]".to_string(),
    };
    Some(format!(
        "macro_rules! w {{ ($d:tt ; {}) => {{ {head}\n{item} }} }}\nw! {{ $ ; {} }}",
        params.join(" ; "),
        args.join(" ; ")
    ))
}

/// True if every attribute in the item is one of derive-ex's own or a harmless inert one, so
/// that a real compiler can expand the item without tripping over unrelated attributes.
fn only_plain_attrs(r: &req::Request) -> bool {
    use syn::visit::Visit;
    struct V(bool);
    impl<'a> Visit<'a> for V {
        fn visit_attribute(&mut self, a: &'a syn::Attribute) {
            let ok = ["derive_ex", "ord", "partial_ord", "eq", "partial_eq", "hash", "debug", "default", "doc", "allow"]
                .iter()
                .any(|n| a.path().is_ident(n));
            if !ok {
                self.0 = false;
            }
        }
    }
    let Some(ts) = req::lex(&r.item) else {
        return false;
    };
    let Ok(item) = syn::parse2::<syn::Item>(ts) else {
        return false;
    };
    let mut v = V(true);
    v.visit_item(&item);
    v.0
}

/// Compares the real host's pretty-printed expansion of every module with engine N's output
/// for the same request (spacing-insensitive token comparison). Informational.
fn cmd_cross_check(m: &BTreeMap<String, String>) {
    use quote::ToTokens;
    let exp: String = get(m, "expanded", String::new());
    let idx: String = get(m, "index", String::new());
    let text = std::fs::read_to_string(&exp).unwrap_or_else(|e| harness_error(&format!("{exp}: {e}")));
    let index: Vec<serde_json::Value> = serde_json::from_str(
        &std::fs::read_to_string(&idx).unwrap_or_else(|e| harness_error(&format!("{idx}: {e}"))),
    )
    .unwrap_or_else(|e| harness_error(&format!("{idx}: {e}")));
    let file = match syn::parse_file(&text) {
        Ok(f) => f,
        Err(e) => {
            println!("cross-check: 0 of 0 (expanded text does not parse: {e})");
            return;
        }
    };
    let mode_of: BTreeMap<String, String> = index
        .iter()
        .filter_map(|e| Some((e["module"].as_str()?.to_string(), e["req"]["mode"].as_str()?.to_string())))
        .collect();
    let mut mods: BTreeMap<String, String> = BTreeMap::new();
    for it in file.items {
        if let syn::Item::Mod(md) = it {
            if let Some((_, items)) = md.content {
                let name = md.ident.to_string();
                // skip the `use ::derive_ex::{..}` line; a derive macro's output does not contain
                // the item itself, the compiler's expansion of the module does
                let skip = if mode_of.get(&name).map(|m| m == "derive").unwrap_or(false) { 2 } else { 1 };
                let mut ts = proc_macro2::TokenStream::new();
                for i in items.iter().skip(skip) {
                    i.to_tokens(&mut ts);
                }
                mods.insert(name, req::canon_loose(&normalise_for_cross_check(ts)));
            }
        }
    }
    let mut same = 0;
    let mut total = 0;
    let verbose = m.contains_key("verbose");
    for e in &index {
        let (Some(name), Some(native)) = (e["module"].as_str(), e["text"].as_str()) else {
            continue;
        };
        let Some(real) = mods.get(name) else {
            continue;
        };
        let Some(nts) = req::lex(native) else {
            continue;
        };
        total += 1;
        let n = req::canon_loose(&normalise_for_cross_check(nts));
        if n == *real {
            same += 1;
        } else if verbose {
            println!("differs: {name}\n  N: {}\n  R: {}", n.replace('\u{1f}', " "), real.replace('\u{1f}', " "));
        }
    }
    println!("cross-check: {same} of {total} modules token-identical between the real host and engine N");
}

/// Removes what rustc's pretty-printer legitimately changes: trailing commas, the already
/// expanded `::core::stringify!(x)`, redundant parentheses are left alone (both sides have them).
fn normalise_for_cross_check(ts: proc_macro2::TokenStream) -> proc_macro2::TokenStream {
    use proc_macro2::{Group, Literal, TokenTree};
    let v: Vec<TokenTree> = ts.into_iter().collect();
    let mut out: Vec<TokenTree> = Vec::new();
    let mut i = 0;
    let is_p = |t: &TokenTree, c: char| matches!(t, TokenTree::Punct(p) if p.as_char() == c);
    let is_i = |t: &TokenTree, s: &str| matches!(t, TokenTree::Ident(id) if id == s);
    while i < v.len() {
        // `:: core :: stringify ! ( x )` -> "x"
        if i + 7 < v.len()
            && is_p(&v[i], ':')
            && is_p(&v[i + 1], ':')
            && is_i(&v[i + 2], "core")
            && is_p(&v[i + 3], ':')
            && is_p(&v[i + 4], ':')
            && is_i(&v[i + 5], "stringify")
            && is_p(&v[i + 6], '!')
        {
            if let TokenTree::Group(g) = &v[i + 7] {
                out.push(TokenTree::Literal(Literal::string(&g.stream().to_string())));
                i += 8;
                continue;
            }
        }
        // `unreachable!()` and its expansion
        if i + 2 < v.len() && is_i(&v[i], "unreachable") && is_p(&v[i + 1], '!') {
            if let TokenTree::Group(g) = &v[i + 2] {
                if g.stream().is_empty() {
                    out.push(TokenTree::Ident(proc_macro2::Ident::new("__unreachable", proc_macro2::Span::call_site())));
                    i += 3;
                    continue;
                }
            }
        }
        if i + 9 < v.len()
            && is_p(&v[i], ':')
            && is_p(&v[i + 1], ':')
            && is_i(&v[i + 2], "core")
            && is_i(&v[i + 5], "panicking")
            && is_i(&v[i + 8], "panic")
        {
            if let TokenTree::Group(g) = &v[i + 9] {
                if g.stream().to_string().contains("entered unreachable code") {
                    out.push(TokenTree::Ident(proc_macro2::Ident::new("__unreachable", proc_macro2::Span::call_site())));
                    i += 10;
                    continue;
                }
            }
        }
        match &v[i] {
            TokenTree::Punct(p) if p.as_char() == ',' => {
                let after_brace = i > 0
                    && matches!(&v[i - 1], TokenTree::Group(g) if g.delimiter() == proc_macro2::Delimiter::Brace);
                if after_brace {
                    i += 1;
                    continue;
                }
                let last = i + 1 == v.len();
                let before_brace = matches!(v.get(i + 1), Some(TokenTree::Group(g)) if g.delimiter() == proc_macro2::Delimiter::Brace);
                if !(last || before_brace) {
                    out.push(v[i].clone());
                }
            }
            TokenTree::Group(g) => {
                out.push(TokenTree::Group(Group::new(g.delimiter(), normalise_for_cross_check(g.stream()))));
            }
            t => out.push(t.clone()),
        }
        i += 1;
    }
    out.into_iter().collect()
}
