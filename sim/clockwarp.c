/* Clock seam for the session simulator (LD_PRELOAD): every reading of a clock by the process
 * under test returns the real value plus BASE + k * STEP, where k counts the readings so far -
 * i.e. the clock is skewed and jumps forward by STEP at every look. Configured through the
 * environment (DEXSIM_CLOCK_BASE_NS, DEXSIM_CLOCK_STEP_NS); the number of readings is written
 * to DEXSIM_CLOCK_REPORT at exit. derive-ex reads no clock today, so the expected count of
 * readings made on behalf of an expansion is zero; the seam exists so that a change that
 * starts to read one (a cache with a time-to-live, a timestamp in a name) meets hours of
 * simulated time within a session of a few seconds. */
#define _GNU_SOURCE
#include <dlfcn.h>
#include <stdatomic.h>
#include <stdio.h>
#include <stdlib.h>
#include <sys/time.h>
#include <time.h>

static int (*real_clock_gettime)(clockid_t, struct timespec *);
static _Atomic long long readings, readings_in_expansion;
static __thread int in_expansion;

/* called by the simulator around every expansion, on the thread that runs it */
void dexsim_clock_mark(int on) { in_expansion = on; }
static long long base_ns, step_ns;
static int configured;

static void report(void) {
    const char *p = getenv("DEXSIM_CLOCK_REPORT");
    if (!p) return;
    FILE *f = fopen(p, "w");
    if (!f) return;
    fprintf(f, "{\"clock_readings\": %lld, \"clock_readings_in_expansion\": %lld, \"base_ns\": %lld, \"step_ns\": %lld}\n",
            (long long)atomic_load(&readings), (long long)atomic_load(&readings_in_expansion), base_ns, step_ns);
    fclose(f);
}

static void configure(void) {
    const char *b = getenv("DEXSIM_CLOCK_BASE_NS"), *s = getenv("DEXSIM_CLOCK_STEP_NS");
    base_ns = b ? atoll(b) : 0;
    step_ns = s ? atoll(s) : 0;
    real_clock_gettime = (int (*)(clockid_t, struct timespec *))dlsym(RTLD_NEXT, "clock_gettime");
    atexit(report);
    configured = 1;
}

static void warp(struct timespec *ts) {
    long long k = atomic_fetch_add(&readings, 1);
    if (in_expansion) atomic_fetch_add(&readings_in_expansion, 1);
    long long off = base_ns + k * step_ns;
    long long ns = (long long)ts->tv_nsec + off % 1000000000LL;
    long long sec = (long long)ts->tv_sec + off / 1000000000LL;
    if (ns >= 1000000000LL) { ns -= 1000000000LL; sec += 1; }
    if (ns < 0) { ns += 1000000000LL; sec -= 1; }
    ts->tv_sec = (time_t)sec;
    ts->tv_nsec = (long)ns;
}

int clock_gettime(clockid_t id, struct timespec *ts) {
    if (!configured) configure();
    int r = real_clock_gettime ? real_clock_gettime(id, ts) : -1;
    if (r == 0 && ts) warp(ts);
    return r;
}

int gettimeofday(struct timeval *tv, void *tz) {
    struct timespec ts;
    (void)tz;
    if (clock_gettime(CLOCK_REALTIME, &ts) != 0) return -1;
    if (tv) { tv->tv_sec = ts.tv_sec; tv->tv_usec = ts.tv_nsec / 1000; }
    return 0;
}

time_t time(time_t *t) {
    struct timespec ts;
    if (clock_gettime(CLOCK_REALTIME, &ts) != 0) return (time_t)-1;
    if (t) *t = ts.tv_sec;
    return ts.tv_sec;
}
